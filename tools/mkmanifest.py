#!/usr/bin/env python3
"""Writes /verif/MANIFEST.json from the table below (edit the table, not the JSON)."""
import json
import os

VERIF = os.path.dirname(os.path.dirname(os.path.abspath(__file__)))

COMMON_NOTE = ('Theorems are about a Coq model, not about the Python source: the tie to /repo is (T-A/T-S) regeneration of '
               'Gen/*.v by tools/py2coq on every run and/or (T-B) differential execution of the model (vm_compute inside Coq) '
               'against the real code on the same scripts. Trusted: Coq 8.16.1 kernel (vm_compute; no native_compute), the '
               'translator, the hand-written environment models named below, CPython/OS behaviour. No axioms declared; '
               'Print Assumptions under every property theorem is checked on every run.')

CHECKS = {
    'C10': dict(
        text=('Proof. C10 is stated in full (round trip under every segmentation, truncation at every offset with orderly close or '
              'socket error, no spinning on arbitrary bytes, sender writes exactly the frames) as theorems about Gallina code that '
              'tools/py2coq regenerates from send_msg/recv_msg/_recv_exact on every run; an edit that changes their behaviour breaks a '
              'proof. The generated code is additionally run against the real functions over scripted sockets (all 2^15 segmentations '
              'of two minimal frames, every truncation offset, random cuts up to 300 KB).'),
        design='5/C10',
        note=('Assumes the socket model of Framing/Sock.v (recv returns any non-empty amount up to the request; b"" or an OSError once the '
              'peer is gone; a silent peer is out of scope) and dec(enc m)=m for pickle. ' + COMMON_NOTE),
        technique='machine-checked proof (Coq) over code regenerated from the source + differential correspondence',
    ),
}

CHECKS['C07'] = dict(
    text=('Proof over an executable model of Pool.run (Pool/Model.v: first_enqueue, try_enqueue, handle_death with its drain and re-dispatch '
          'loop, handle_new_result, the event loop) quantified over every configuration, idle-worker choice and environment script: a normal '
          'return with retry on is a permutation of map f inputs; no internal error is possible. The invariant (pending counter = sum of '
          'pending lists, queue/pending correspondence per worker, multiset conservation of inputs) is proved preserved by every primitive. The '
          'model is tied to pool.py by running the real Pool.run with scripted fake workers on real pipes over all schedules of small '
          'configurations plus random ones and comparing every outcome (including blocked prefixes) with the model evaluated in Coq.'),
    design='5/C07',
    note=('Known finding (excluded domain): a refusing user enqueue_fn (livelock, proved as C07_refuted_...); run() on a pool with no live '
          'worker used to return None - repaired in /repo, the outcome no longer exists in the model. Termination for every fair environment is not yet a theorem (only: the nested re-dispatch cannot raise an '
          'internal error); a worker that neither answers nor dies is outside the property. The model is hand-written: its tie to pool.py is the '
          'differential harness only. ' + COMMON_NOTE),
    technique='machine-checked invariant proof (Coq) over a hand-written model + exhaustive small-scope differential correspondence',
)
CHECKS['C08'] = dict(
    text=('Proof over the same Pool.run model: (1) PoolError is raised ONLY when no worker is left - for every configuration without a refusing '
          'enqueue_fn, every environment script and idle-worker choice, when run() ends with PoolError every worker has been found dead and closed '
          '(invariant J: while a retry is queued or the source is not known to be depleted no open worker sits idle; established by first_enqueue, '
          'kept by handle_new_result / handle_death / the re-dispatch loop); (2) PoolError.partial_results and every normal return hold only genuine '
          'results, at most one per input, and every input is answered or accounted for as dropped (retry off); (3) the statement (1) is refuted for a '
          'refusing enqueue_fn (known finding). Correspondence as for C07, with the oracle of C08 (PoolError only when no worker is left alive and '
          'open; missing inputs were handed to a worker that died).'),
    design='5/C08',
    note=('"every input dropped with retry off was pending at, or being enqueued to, a worker at the step that declared it dead" is checked by the direct '
          'oracle on every explored schedule, not stated as a theorem (the ghost field `lost` is only shown to account for the missing inputs). Refusing '
          'enqueue_fn is a known finding with its own refutation theorem. ' + COMMON_NOTE),
    technique='machine-checked invariant proof (Coq) over a hand-written model + exhaustive small-scope differential correspondence',
)

CHECKS['C19'] = dict(
    text=('Proof. Worker.active_children, Worker.register_child and the registration guard of Worker.__init__ are regenerated into Gallina on '
          'every run; for every history of creations (run / not-run / failing start), deaths, restarts and queries the theorem shows each query '
          'yields exactly the live workers, each once, leaves no dead worker in the registry (size bounded by the number of live workers whatever '
          'the history length) and that this persists. Histories are also replayed on real thread / persistent-thread workers against the model.'),
    design='5/C19',
    note=('Atomicity of prune+copy relies on the `with Worker._children_lock` block (the translator accepts nothing else); is_alive() is an oracle of '
          'the model; process/remote kinds are not spawned by this check (the registry code is kind-independent). ' + COMMON_NOTE),
    technique='machine-checked proof (Coq) over code regenerated from the source + differential correspondence on histories',
)

CHECKS['C05'] = dict(
    text=('Proof. The loop bodies of the three persistent do_work methods, _send_result and _cleanup are regenerated on every run as '
          'instruction lists (copy kind of args/kwargs, get, break-on-None, unpack, slice merge, update, run, send; counter increment and put; '
          'end marker and closes); an interpreter in Coq gives them meaning over mutable argument values. Theorems: for every defaults (list or '
          'tuple), default kwargs and enqueue sequence, and every target (also one that mutates all its arguments), each kind writes result k = '
          'f(merge(pristine defaults, enqueue k)) numbered k and then exactly one end marker; merge laws; for every parent-side history of '
          'enqueue/next_result/call/close/wait - and of inputs on which the target raises, so that the worker dies on its own - the delivered values are a prefix in order of the accepted enqueues, '
          'and an enqueue after close or death is refused, also as the first thing done with the dead worker (the guard of each kind\'s enqueue is regenerated from the source; refutation for a guard trusting the cached flag). Real workers are run on '
          'generated cases and histories and compared with the model (thread kind in quick, all kinds in thorough).'),
    design='5/C05',
    note=('Values are tokens with a mutation count; deepcopy/list()/aliasing are modelled as three copy kinds read from the source. The parent API '
          'model (Persist/Model.v pstep) is hand-written and tied by differential histories only; blocking next_result calls are excluded from '
          'histories. ' + COMMON_NOTE),
    technique='machine-checked proof (Coq) over instruction lists regenerated from the source + differential correspondence',
)

CHECKS['C13'] = dict(
    text=('Proof. The opt-in scan SupportRemoteGetStateMeta.__check_type_cached is regenerated into a step function over class descriptors on every '
          'run; theorems give its closed form for every inheritance chain (Warning iff a non-remote, non-**kwargs __getstate__ precedes a '
          'remote-aware one before any class defining a reducer; registered iff no reducer and some remote-aware __getstate__; never registered '
          'without one) and, over a reducer-selection model of RemotePickler vs the standard pickler, that a class which does not opt in is '
          'routed to the same reducer (copyreg entries included). Generated hierarchies (all chains of depth <= 3/4 over 7 features, multiple '
          'inheritance) are checked against the real metaclass, real dispatch-table look-ups against the model, and remote_pickle.dumps is compared '
          'byte for byte with pickle.dumps on a standard-library menu and random graphs (protocols 2-5, remote True/False).'),
    design='5/C13',
    note=('Byte-level equivalence with CPython pickle is differential testing only (the C pickler is not modelled); the dispatch model is '
          'hand-written and pinned to the source by tools/pin.py. ' + COMMON_NOTE),
    technique='machine-checked proof (Coq) over code regenerated from the source + differential testing against pickle',
)

CHECKS['C14'] = dict(
    text=('Proof. Pickle/State.v models the load-time machinery of remote_pickle after its repairs (five fix: commits): the pickler-side '
          'bookkeeping of remote_reduce (which instances are ANNOUNCED by the object holding them, which are first occurrences, which references), '
          'the event order of unpickling, and RemoteState as a stack machine whose entries carry their patches by value. '
          'C14_every_graph_restores is proved by induction on the size of the graph for EVERY graph term - opt-in objects at top level, as '
          'attributes of one another in any number (siblings) and to any depth, inside containers, inside objects of classes which do not opt in, '
          'shared references, cycles, classes with and without __setstate__ - and every patch dictionary: the load succeeds, every instance is '
          'restored exactly once, children before holders, with exactly the state the specification gives it, and the per-thread stack ends '
          'clean. C14_dumps_then_loads transfers this to dumps-then-loads under the decidable condition that the announcements of the real '
          'pickler coincide with the structure of the graph; that condition, the restored states and the errors are compared with the real '
          'dumps/loads for every generated graph (check_load, check_dump), the specification of C14 is evaluated directly, the opt-in decision '
          '(regenerated MRO scan, multiple-inheritance probe) and the remote=True-exactly-once log are checked on the implementation.'),
    design='12.6',
    note=('Residual known finding (with patches only, see C15): a directly held child whose first occurrence lies inside an earlier attribute '
          'of the same holder. A syntactic sufficient condition is proved (Pickle/Announce.v: tidy g -> announced_structurally g; C14_tidy_graphs_restore); attribute references to objects other than the holder itself or its ancestors are covered by the decidable per-graph condition only. '
          'Non-dict states, __slots__-only classes and the byte level of pickle are exercised or out of scope, not modelled. The model is '
          'hand-written and pinned to state.py / remote_reduce by tools/pin.py. ' + COMMON_NOTE),
    technique='machine-checked proof (Coq, structural induction over all graphs) + refutation witness + differential correspondence on both dump and load side',
)
CHECKS['C15'] = dict(
    text=('Proof, same model and induction as C14: C15_patches_reach_exactly_the_addressed_objects - for every graph and every patch dictionary '
          '(nested to any depth) the states handed to __setstate__ are exactly spec g p: patches address the top-level object, a dictionary '
          'under k the direct child stored under k (recursively), any other value replaces the entry, and every object that is not addressed - '
          'siblings, objects inside containers or plain objects, at any depth - is restored with its own state; C15_no_residue - the per-thread '
          'stack ends empty (or holds only the untouched patches of a top-level object which takes none). Independence of successive loads, '
          'failing loads in between, reused patch dictionaries (structure AND identity of the caller\'s nested dictionaries are compared before '
          'and after), and concurrent threads are exercised on the implementation against the model and a fresh thread.'),
    design='12.6',
    note=('Known findings (narrow): (1) a directly held child whose first occurrence lies inside an earlier attribute of the same holder takes '
          'the entry of another object (C14_refuted_first_occurrence_inside_an_earlier_attribute); (2) a dictionary patch addressed at a child '
          'that is only referred to cannot be applied (C15_refuted_dict_patch_for_a_child_that_is_only_referred_to). Thread-locality is by '
          'construction of the model and tested, not proved. ' + COMMON_NOTE),
    technique='machine-checked proof (Coq, structural induction over all graphs and patch dictionaries) + refutation witnesses + differential correspondence with a direct oracle',
)

CHECKS['C01'] = dict(
    text=('Proof. The control skeletons of ThreadWorker._run, ProcessWorker._run and the persistent _cleanup methods are regenerated on every run '
          '(try/except/finally nesting, handler classes, one effect label per statement); Child/Sem.v executes them with asynchronous exceptions '
          'and kills landing at any statement boundary and models the parent-side decoding. The theorem covers every kind in {thread, process} x '
          '{one-shot, persistent}, every target behaviour, rebuildable or not, and ANY pair of events at ANY boundary (finite domain, recomputed by '
          'vm_compute on the regenerated skeletons; the REMOTE kind - RemoteWorker._run_backend, PersistentRemoteWorker._cleanup, decoded as _fetch_results does - has its own theorem C01_every_landing_point_remote): a dead worker is never undefined, the accessors never raise, has_error False only if the target '
          'returned, the reported exception is one the target raised or WorkerTerminatedError or None. Every single landing point is replayed on '
          'the real workers (sys.settrace in-process for thread kinds, sitecustomize tracer in spawned children for process kinds and in the backends '
          'a real loopback server spawns for remote kinds, incl. SIGKILL and SIGKILL mid-send) and compared with the model; accessors are read '
          'three times; the parent side of remote workers is probed with results that are slow to rebuild. The parent-side branch of RemoteWorker.is_alive is regenerated as a list of decision steps (Gen/RemoteLive.v): theorem - in every state of the cached flags and whatever the child process and the frontend thread do during the call, it says dead only after the frontend thread has stored the outcome; refutation for a cache consulted first.'),
    design='5/C01',
    note=('Assumes asynchronous exceptions land at statement boundaries or inside an interruptible target, and FIFO pipes with at most one truncated '
          'trailing message. The server process between a remote parent and its backend, and TCP, are not modelled. Pairs of landing points and opcode-level '
          'points are in the theorem only. ' + COMMON_NOTE),
    technique='machine-checked finite-domain proof (Coq, vm_compute) over skeletons regenerated from the source + line-level injection correspondence',
)
CHECKS['C03'] = dict(
    text=('Proof over the same regenerated skeletons (thread, process, remote) with ONE graceful terminate - raised directly in a thread child, delivered by the child\'s own control thread in process and remote children (ATerm) -: for every boundary from construction-complete on, a target that '
          'runs interruptible code and propagates ends with WorkerTerminatedError and its finally/_cleanup ran (or the boundary is never reached); a '
          'target that ended on its own yields its own outcome or WorkerTerminatedError, except on the boundaries of the failure-recording handler '
          '- also when the request lands in the handler that records the target\'s own failure (repaired: the run loops catch it in an outer handler; C03_handler_window_needs_the_repair shows the loss without it). Every landing point is replayed on real thread, process and remote workers; the real terminate() is exercised on '
          'running targets inside try/finally and on idle persistent workers for thread, process and remote kinds.'),
    design='5/C03',
    note=('Time-to-death is exercised (terminate(timeout=10) must return True), not proved. The terminate protocol '
          'itself (control pipe, control thread, three-hop remote chain) is modelled in C04, here the injection is placed by a tracer. ' + COMMON_NOTE),
    technique='machine-checked finite-domain proof (Coq, vm_compute) over skeletons regenerated from the source + line-level injection correspondence',
)

CHECKS['C04'] = dict(
    text=('The bodies of ThreadWorker.wait/terminate and ProcessWorker.wait/terminate are regenerated on every run as lists of control instructions (Gen/Ctrl.v: which blocking primitive is called with which bound, in which order, under which condition) and interpreted by Ctrl/Model.v, so the theorems below are re-proved over what the code says now (an unbounded wait for the acknowledgement translates and breaks C04_bounded; refutation theorems keep both regressions). Proof over a model of the parent-side control logic (is_alive / wait / terminate / close of thread, process, persistent process and '
          'persistent thread workers) against a child of any class (cooperative, swallowing, blocked in C, interpreter lock held, stopped): for every state and '
          'operation a call issues at most four blocking primitives, each bounded by the caller\'s finite timeout; the returned boolean equals the '
          'child\'s absence at return (an invariant of every history); on a dead or never-run worker every call returns True at once and changes '
          'nothing; terminate(force=True) of a process worker leaves no child. All by exhaustive case analysis in Coq. The REAL methods are run '
          'on every history of length <= 3/4 against a scripted child that records each blocking call with its timeout, and compared with the '
          'model; real unresponsive children (C sleep holding the interpreter lock, SIGSTOP, swallowing loop, sleep) are terminated under a '
          'wall-clock bound. Remote kind, parent side: is_alive / wait / terminate regenerated as decision lists (Gen/RemoteLive.v) and interpreted over every state of the cached flags and every environment behaviour: each answers, says dead only when the child process is gone and the outcome stored, keeps the cached flags true (so any number of calls in any order); refutation for an answer given without asking the server. Real lingering children (result delivered, process kept alive) for process and remote kinds.'),
    design='5/C04',
    note=('Wall-clock itself and kernel signal semantics are assumptions (the reaction table of Ctrl/Model.v), exercised on real children. Remote '
          'kinds: the parent side forwards to the server-side process logic; covered by real children in the thorough tier only. ' + COMMON_NOTE),
    technique='machine-checked proof by exhaustive case analysis (Coq) + differential correspondence with a scripted child + real unresponsive children',
)

CHECKS['C02'] = dict(
    text=('The statement is mostly about CPython pickle and OS pipes, so the theorems are thin and the weight is in the differential harness: '
          'Worker.create is regenerated into a Coq function and proved to map the six (type, persistence) pairs to the six class names; a '
          'two-party pipe model proves that waiting for a result of ANY size terminates under EVERY interleaving with the draining parent (and that '
          'a join-only parent deadlocks above the capacity - the pinned defect). The harness runs targets, argument shapes, return values (None, '
          'falsy, nested, custom class, 0 bytes .. 5/8 MB across 64 KiB and the socketpair limit), exceptions with 0-2 arguments, not-run workers, '
          'constructor and factory, in thread, process and remote workers and compares each with the direct call and with each other.'),
    design='5/C02',
    note=('Partial: value fidelity is pickle\'s; buffer sizes are the kernel\'s. The pipe model (Equiv/Pipe.v) is hand-written. ' + COMMON_NOTE),
    technique='machine-checked proof (Coq) of the factory mapping and of deadlock freedom in a pipe model + differential execution across kinds',
)

CHECKS['C06'] = dict(
    text=('Proof. Over the regenerated loop body / _send_result / _cleanup instruction lists of the three persistent kinds (tied to the proved '
          'programs by eq_refl): for every target, defaults, sequence of enqueues, landing position (after any instruction of any iteration, also '
          'between the counter increment and the write) and action, the results on the stream are a prefix of the expected sequence in order '
          '(the first k or k+1), a graceful terminate is followed by exactly one end marker and a kill by none (EOF). The real persistent thread '
          'worker gets a WorkerTerminatedError on every line event of its loop, send, cleanup and run functions (stream read back under a no-block '
          'bound, also through an mp pipe watched with connection.wait as the Pool does); real terminate()/SIGKILL on busy and idle workers of '
          'all three kinds.'),
    design='5/C06',
    note=('The former known finding R19 (thread worker on an mp pipe, exception landing before the end marker is written) is repaired: terminate() finishes the clean-up; the sweep stands in for the rest of that call after each landing. EOF delivery is the kernel\'s. The remote '
          'forwarder thread (_fetch_results) is exercised by the real terminate/kill cases only. ' + COMMON_NOTE),
    technique='machine-checked proof (Coq) over instruction lists regenerated from the source + line-level injection sweep with a direct oracle',
)

CHECKS['C16'] = dict(
    text=('Proof over the regenerated run skeletons: the translator labels a statement as a result send only if it sends '
          '`((ok, value), self._user_state)`, so every report carries the state; finite-domain theorems show that every reporting ending (return, '
          'own exception, graceful terminate inside the running target) synchronises, and that a kill at any statement boundary lets a state through '
          'exactly when the complete result message had been written. Real workers of the six classes are run with random init values, 0-10 '
          'assignments and the three endings: the parent polls user_state while the worker is alive, checks it after death, the rejected '
          'parent-side assignment, restart() and a second incarnation. Process kind: the reception shape (Gen/Transport.v, flag result_only_when_dead) gives the theorem that nothing of the final message - outcome or state - is taken over while the child lives, for every history of timed waits and accessor calls; refutation for accessors using a message received early.'),
    design='5/C16',
    note=('Remote kinds: the backend sends the state as a message of its own after the result (SockSendState in the regenerated skeleton of _run_backend); the theorems cover it. Thread kinds share memory '
          '(unspecified while alive). ' + COMMON_NOTE),
    technique='machine-checked finite-domain proof (Coq) over skeletons regenerated from the source + differential execution on the six classes',
)

CHECKS['C11'] = dict(
    text=('The decisions of RemoteServer.run the model depends on (per-client guard of the accept loop, what it lets escape, unknown and duplicate context ids) are read off the source on every run (Gen/ServerLoop.v); serve_f is parameterised by them, gen_sflags_good ties the theorems to the source, refutations keep the other values. Proof over the session model of RemoteServer.run (Server/Model.v, pinned to the source): for every sequence of client sessions - each a '
          'request kind with the point at which the client vanishes (nothing sent, header cut, payload cut, garbage, control connection never opened, '
          'complete) - the server is still up, a session that is not completed leaves the whole server state (children of other clients, context '
          'table) unchanged, and the next well-formed request is served. The REAL server process is attacked with recorded well-formed byte streams '
          'of five request kinds cut at byte offsets (every offset in the thorough tier) and ended with FIN or RST, garbage headers and payloads, a '
          'client that never opens the control connection; after every fault a well-formed request must be answered, regularly a full RemoteWorker '
          'round trip, and a healthy client\'s persistent worker started before the faults must still work. Sessions and replies are replayed '
          'through the model inside Coq.'),
    design='5/C11',
    note=('The model is hand-written (tie: source pin of RemoteServer.run + the session correspondence). Kernel TCP behaviour is an assumption; a '
          'client that stays silent without closing is outside the property. ' + COMMON_NOTE),
    technique='machine-checked proof (Coq) by induction over session sequences + differential correspondence with a real server under scripted faulty clients',
)

CHECKS['C18'] = dict(
    text=('The duplicate / unknown-id / delete decisions of RemoteServer.run are read off the source on every run (Gen/ServerLoop.v) and parameterise the table model; refutation for an overwriting duplicate. Proof over the same server model: creating an id that exists is refused and changes nothing about the existing one, creating a free id '
          'registers it, deleting frees the id and leaves every other id alone (also for unknown ids), a worker request naming an unknown context is '
          'answered by closing and changes nothing, the server survives every history. Whose work a worker created in a context executes is decided by three cooperating sites (what its creator ships, what the context helper injects, what the child unpacks), read off the source on every run (Gen/CtxWork.v): theorem - it executes the context\'s target with the context\'s defaults whatever its creator passed along; refutation when the creator ships its work and the child prefers it. Histories over three ids of create / duplicate create / '
          'delete / delete unknown / worker in context (created with target=None, with work of its own, or added by a Pool) / worker in unknown context run through the REAL RemoteContext and PersistentRemoteWorker API '
          'on a fresh server each; replies and the table of registered ids are compared with the model, a call in each context checks that the '
          'worker runs the context\'s target with the context\'s defaults, and after deleting every context the server must have no child process left.'),
    design='5/C18',
    note=('"Deleting a context ends its workers" is observed on the process tree only (the helper process is not modelled beyond a handle). ' + COMMON_NOTE),
    technique='machine-checked proof (Coq) over a server state machine + differential correspondence of context histories through the real client API',
)

CHECKS['C20'] = dict(
    text=('Proof. The shapes of RemoteWorker._start and _run_frontend are regenerated from the source (which statements of the handshake can fail, '
          'whether the enclosing try sets the start-up event and stores the error, how the constructor waits, whether it re-raises) and proved to '
          'refine the specification on every vector of step outcomes: whatever step fails the constructor raises, it never waits for an event nobody '
          'sets and never returns a worker whose handshake failed; thread and process constructors wait for the identity OR the death of the child. '
          'That a server message cut at any byte offset makes the receive step fail comes from the regenerated recv_msg (C10). The REAL constructors '
          'run against a scripted server that cuts either handshake message at byte offsets (all in the thorough tier) with FIN or RST, refuses the '
          'control connection or is absent, against a real server with an unknown context id, and with thread/process children that die at the very '
          'start - each under a 10 s hang bound.'),
    design='5/C20',
    note=('A server that accepts and then stays silent for ever without closing is outside the property (no failure is observable). The semantics of '
          'the shapes (Server/Handshake.v) is hand-written. ' + COMMON_NOTE),
    technique='machine-checked finite-domain proof (Coq) over start-up shapes regenerated from the source + real constructors against a scripted server',
)

CHECKS['C09'] = dict(
    text=('Proof over two models. (a, c) PoolLife/Model.v: the registry of a Pool (add_worker with its failure paths, attach, restart_workers, '
          'close / terminate / leaving the with-block) composed with the control model of the workers (Ctrl/Model.v): for EVERY history of these '
          'operations and kills, with children of any class (cooperative, swallowing, blocked in C, interpreter lock held, stopped), once the pool '
          'is closed every process worker it ever held - registered, dropped by a failed registration, replaced by a restart - has no child left, '
          'unless forced termination was disabled; a failed add_worker leaves the registry unchanged and the half-built worker terminated; a closed '
          'pool accepts nothing. (b) Pool/Model.v [rounds]: for every sequence of runs with deaths inside and kills, complete or partial '
          'restart_workers between them, a run that returns holds exactly one result per input of THAT run (invariant: the pool is quiet between '
          'runs). Correspondence: the real Pool holding real persistent process/thread worker objects with scripted children (all histories of '
          'length <= 3 over 19 operation tokens + random ones), the real Pool.run/restart_workers over consecutive scripted runs, and real pools of '
          'thread+process (thorough: +remote) workers with stuck/killed children checked in /proc.'),
    design='5/C09',
    note=('Remote workers are not in the control model: for them the wait/terminate contract is an assumption exercised on real remote workers '
          '(thorough tier). OS-level death itself (SIGTERM/SIGKILL delivery, reaping) is the reaction table of Ctrl/Model.v, validated on real children by '
          'C04 and by the /proc checks here. Worker ids of live workers are assumed unique. "Restarted workers are handed work again" and "dead workers '
          'are never handed work" are checked by the direct oracle on the implementation, not stated as theorems. Both models are hand-written and '
          'pinned to the source by hash (tools/pin.py). ' + COMMON_NOTE),
    technique='machine-checked invariant proofs (Coq) over hand-written models + differential correspondence on histories + real-process exploration',
)
CHECKS['C17'] = dict(
    text=('Gen/Restart.v is regenerated from Worker.__init__ and the two _get_restart_args: C17_restart_arguments_rebuild_the_same_configuration proves, for every choice of constructor arguments (falsy ones included) and for the remote kind\'s extra options, that the next incarnation remembers exactly the same configuration (refutation kept for forwarding truthy options only). Proof over PoolLife/Model.v [restart_w] (PersistentWorker.restart over the control model): for every kind, every state of the old '
          'incarnation reachable by any history of is_alive / wait / terminate / close on a child of any class, and every timeout, restart either '
          'returns - then the old child is gone and the new incarnation is a fresh live worker of the same kind under the new id - or raises and the '
          'old child is still the live registered one: never abandoned and replaced; a process worker can always be stopped, so its restart never '
          'raises; Pool.restart_workers lets go of dead incarnations only. Correspondence: the real restart() on real persistent process/thread '
          'worker objects with a scripted child after every short history; real thread/process (thorough: remote) workers brought into the seven '
          'states of the property, restarted up to three times with and without a caller-supplied results pipe, then used again (identity, name, '
          'userid, target, defaults, empty new stream, counter from zero, old pid gone).'),
    design='5/C17',
    note=('The equivalence of the new incarnation (same target/defaults/name/userid), the emptiness of the new result stream and the counter starting '
          'from zero follow from __init__ being re-run with the saved constructor arguments and a new pipe; they are exercised on real workers, not '
          'modelled. Fresh ids are an OS assumption. restart(timeout=None) on an uncooperative target blocks by design and is outside the check. '
          'Remote workers only in the thorough tier. ' + COMMON_NOTE),
    technique='machine-checked proof (Coq) over a hand-written model + differential correspondence + real-worker exploration',
)

CHECKS['C12'] = dict(
    text=('Proof over Server/Shutdown.v, a model of what becomes of every child process and of every parent\'s data connection when the server is '
          'stopped, parameterised by the SHAPE of the shutdown paths which tools/py2coq regenerates from the source on every run (which registries the '
          'finally loop of RemoteServer.run covers and whether it forces and SIGTERMs survivors, what the SIGTERM handler signals, whether the context '
          'helper cleans up in a finally and passes SIGTERM on to its workers, whether a forced kill fabricates (False, None), whether the registry of direct children only ever grows before the shutdown loops): for EVERY registry (any '
          'number of direct children and contexts holding any number of workers in any state SIGTERM can kill), both ways of stopping, every outcome of '
          'the race inside a context helper that is stopped while forcing a worker, and the server being SIGTERMed after any number of entries because '
          'the caller lost patience: every child is gone and every parent\'s connection has ended with the earlier outcome or an error; children able to '
          'report say WorkerTerminatedError. Tie: real servers with 0-4 real children per scenario, /proc inspection, every parent queried under a '
          'watchdog; steady-state scenarios compared child by child with the model.'),
    design='5/C12',
    note=('Weakest claim of the set, as DESIGN.md says: the truth of C12 lives in the kernel (signal delivery, reaping, TCP teardown). The theorem covers the '
          'LOGIC (who is told to stop, by which means, in which order, under which time budget, and what the parent decodes); the reaction table of the child '
          'classes, "shortly afterwards" (measured: <= 6 s in the check) and the start-up races are exercised on real processes only. SIGSTOPped children are '
          'outside the quantifier. ' + COMMON_NOTE),
    technique='machine-checked proof (Coq) over a model parameterised by shape flags regenerated from the source + real-process exploration with per-child correspondence',
)

NOT_YET = {}


def main():
    props = [json.loads(l)['id'] for l in open(os.path.join(VERIF, 'properties.jsonl'))]
    checks = []
    for pid in props:
        if pid not in CHECKS:
            continue
        c = CHECKS[pid]
        checks.append(dict(
            property_id=pid,
            quick_cmd=f'bin/check {pid} quick',
            thorough_cmd=f'bin/check {pid} thorough',
            evidence_file=f'/verif/evidence/{pid}.json',
            replay_cmd_template=f'bin/check {pid} --replay {{path}}',
            engine='coq-model+correspondence',
            level_claimed=dict(category='proof', text=c['text'], design_ref=c['design']),
            level_note=c['note'],
            technique=c['technique'],
        ))
    na = [dict(property_id=p, reason=NOT_YET.get(p, 'check not built yet in this round (work in progress; see DESIGN.md section 5 for the plan)'))
          for p in props if p not in CHECKS]
    m = dict(
        version=1,
        setup_cmd='bin/setup',
        hooks=dict(guard='PYWORKERS_VERIF', enable='no source hooks are installed; checks drive /repo through its own extension points (PYTHONPATH=/repo)',
                   baseline_off_cmd='cd /repo && /venv/bin/python -m pytest -ra -q -p no:cacheprovider --timeout=900 --continue-on-collection-errors',
                   source_commits=[], add_only=True),
        engines=[dict(name='coq-model+correspondence', path='/verif/coq', serves_properties=sorted(CHECKS),
                      kind_free_text='Coq 8.16.1 development (models, theorems), py2coq translator, Python differential harness')],
        checks=checks,
        notes='See DESIGN.md. fix: commits in /repo are listed in known_findings.json as fixed entries.',
        not_applicable=na,
    )
    with open(os.path.join(VERIF, 'MANIFEST.json'), 'w') as f:
        json.dump(m, f, indent=1)
    print('checks:', [c['property_id'] for c in checks], 'not claimed:', len(na))


if __name__ == '__main__':
    main()
