#!/usr/bin/env python3
"""Line-ending preserving search/replace for files in /repo (several are CRLF).
usage: repo_edit.py FILE  (reads python literal list of (old,new) pairs from stdin)"""
import sys, ast
p = sys.argv[1]
raw = open(p, newline='').read()
crlf = '\r\n' in raw
s = raw.replace('\r\n', '\n')
for old, new in ast.literal_eval(sys.stdin.read()):
    if s.count(old) != 1:
        sys.exit(f'pattern occurs {s.count(old)} times in {p}: {old[:60]!r}')
    s = s.replace(old, new)
if crlf:
    s = s.replace('\n', '\r\n')
open(p, 'w', newline='').write(s)
