#!/bin/bash
# usage (inside `vp run --with-repo -- bash tools/seed_run.sh <Cxx> <patch file> [quick|thorough]`):
# applies a seeded change to the SNAPSHOT of /repo ($VP_RUN_REPO), builds this snapshot of /verif against it and runs the check.
# /repo itself is never touched.
prop=$1; patch=$2; tier=${3:-quick}
repo=${VP_RUN_REPO:?needs vp run --with-repo}
git -C "$repo" apply "$patch" || { echo "SEEDRUN patch does not apply"; exit 3; }
export PYWORKERS_REPO="$repo"
bin/setup > setup.log 2>&1
bin/check "$prop" "$tier" > check.log 2>&1
rc=$?
grep -E "^VIOLATION|^KNOWN-FINDING|^\[$prop\]" check.log
echo "SEEDRUN prop=$prop patch=$patch tier=$tier exit=$rc"
if [ $rc -ne 0 ]; then
  f=$(grep -oE "replay=[^ ]+" check.log | head -1 | cut -d= -f2)
  [ -n "$f" ] && python3 - "$f" <<'PY'
import json,sys
d=json.load(open(sys.argv[1]))
print('kind:', d.get('kind'))
if d.get('first'): print('first:', json.dumps(d['first'])[:1200])
for b in d.get('broken', d.get('tie_broken', []))[:4]: print('broken:', json.dumps(b)[:800])
PY
fi
