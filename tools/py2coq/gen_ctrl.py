"""T-S: regenerates theories/Gen/Ctrl.v - the bodies of ThreadWorker.wait/terminate and ProcessWorker.wait/terminate as
lists of control instructions (Ctrl/Instr.v): which blocking primitive is called with which bound, in which order, under
which condition.  The frame of every method (argument checks, `if not self.is_alive(): return True`, and the closing
`alive = self._child.is_alive(); if not alive: self._dead = True; return not alive`) is required literally; anything
the translator does not know fails closed."""
import ast
from shallow import Unsupported, LOG_LEVELS
from gen_registry import find_class, find_method


def is_log(s):
    return (isinstance(s, ast.Expr) and isinstance(s.value, ast.Call) and isinstance(s.value.func, ast.Attribute)
            and isinstance(s.value.func.value, ast.Name) and s.value.func.value.id == 'logger' and s.value.func.attr in LOG_LEVELS)


def strip(stmts):
    return [s for s in stmts if not is_log(s) and not (isinstance(s, ast.Expr) and isinstance(s.value, ast.Constant))]


def frame(fn, what):
    """checks the frame and returns the statements between the liveness test and the closing triple"""
    body = strip(fn.body)
    i = 0
    while i < len(body) and isinstance(body[i], ast.If) and isinstance(body[i].body[0], ast.Raise):
        i += 1          # argument / is_child checks that raise
    if i >= len(body) or not (isinstance(body[i], ast.If) and ast.unparse(body[i].test) == 'not self.is_alive()' and len(body[i].body) == 1
                               and ast.unparse(body[i].body[0]) == 'return True'):
        raise Unsupported(f'{what}: expected `if not self.is_alive(): return True` after the argument checks')
    rest = strip(body[i].orelse) if body[i].orelse else []
    if rest and body[i + 1:]:
        raise Unsupported(f'{what}: statements both in the else branch and after it')
    rest = rest or body[i + 1:]
    if len(rest) < 3:
        raise Unsupported(f'{what}: closing statements missing')
    a, b, c = rest[-3:]
    ok = (ast.unparse(a) == 'alive = self._child.is_alive()' and isinstance(b, ast.If) and ast.unparse(b.test) == 'not alive' and not b.orelse
          and ast.unparse(b.body[0]) == 'self._dead = True' and all(ast.unparse(x) in ('self._dead = True', 'self._ctrl_comms.parent_end.close()') for x in b.body)
          and ast.unparse(c) == 'return not alive')
    if not ok:
        raise Unsupported(f'{what}: expected the closing `alive = self._child.is_alive(); if not alive: self._dead = True; return not alive`')
    return rest[:-3]


def join_bound(call, what):
    if not call.args:
        return 'false'
    src = ast.unparse(call.args[0])
    if src == 'timeout' or src == 'None if deadline is None else max(0, deadline - time.monotonic())':
        return 'true'
    if src == 'None':
        return 'false'
    raise Unsupported(f'{what}: join({src})')


def instrs(stmts, what):
    out = []
    for s in strip(stmts):
        src = ast.unparse(s)
        if isinstance(s, ast.Try):
            hs_ok = len(s.handlers) == 1 and all(isinstance(x, ast.Pass) for x in s.handlers[0].body) and not s.orelse and not s.finalbody
            if not hs_ok:
                raise Unsupported(f'{what}: try statement (line {s.lineno})')
            body = strip(s.body)
            if len(body) == 2 and ast.unparse(body[0]) == "self._ctrl_comms.parent_end.put('terminate')":
                out.append('CPutTerminate')
                b = body[1]
                if isinstance(b, ast.If) and ast.unparse(b.test) == 'self._ctrl_comms.parent_end.poll(timeout)' and [ast.unparse(x) for x in strip(b.body)] == ['self._ctrl_comms.parent_end.get()'] and not b.orelse:
                    out.append('CAck true')
                elif isinstance(b, ast.Expr) and ast.unparse(b).startswith('self._ctrl_comms.parent_end.get('):
                    out.append('CAck false')         # PipeEndpoint.get blocks whatever `timeout` it is given
                else:
                    raise Unsupported(f'{what}: wait for the acknowledgement `{ast.unparse(b)[:60]}`')
            elif len(body) == 1 and isinstance(body[0], ast.If) and ast.unparse(body[0].test) == 'self._early_msg is None and self._comms.parent_end.poll(timeout)' \
                    and [ast.unparse(x) for x in strip(body[0].body)] == ['self._early_msg = self._comms.parent_end.get()']:
                out.append('CEarlyResult')
            else:
                raise Unsupported(f'{what}: try body (line {s.lineno})')
        elif isinstance(s, ast.If):
            t = ast.unparse(s.test)
            if s.orelse:
                raise Unsupported(f'{what}: if/else (line {s.lineno})')
            if t == 'self._child.is_alive()':
                out.append('CIfAlive [' + '; '.join(instrs(s.body, what)) + ']')
            elif t == 'force':
                out.append('CIfForce [' + '; '.join(instrs(s.body, what)) + ']')
            else:
                raise Unsupported(f'{what}: condition `{t}` (line {s.lineno})')
        elif src == 'foreign_raise(self._ident, WorkerTerminatedError)':
            out.append('CRaise')
        elif src == 'self._release_child()':
            out.append('CRelease')
        elif src == 'self.close()':
            out.append('CClose')
        elif isinstance(s, ast.Expr) and isinstance(s.value, ast.Call) and ast.unparse(s.value.func) == 'self._child.join':
            out.append(f'CJoin {join_bound(s.value, what)}')
        elif src == 'self._child.terminate()':
            out.append('CSigterm')
        elif src == 'self._child.kill()':
            out.append('CSigkill')
        elif src == 'os.kill(os.getpid(), signal.SIGTERM)':
            out.append('CSelfSigterm')
        elif src == 'deadline = None if timeout is None else time.monotonic() + timeout':
            continue
        else:
            raise Unsupported(f'{what}: statement `{src[:70]}` (line {s.lineno})')
    return out


def generate(repo):
    out = ['(* GENERATED by tools/py2coq/gen_ctrl.py from ThreadWorker / ProcessWorker wait and terminate - do not edit *)',
           'From PW Require Import Ctrl.Instr.', '']
    for fname, cname in (('thread.py', 'ThreadWorker'), ('process.py', 'ProcessWorker')):
        tree = ast.parse(open(f'{repo}/pyworkers/{fname}', newline=None).read())
        cls = find_class(tree, cname)
        for meth in ('wait', 'terminate'):
            fn = find_method(cls, meth)
            what = f'{cname}.{meth}'
            if meth == 'terminate':
                dflt = {a.arg: ast.unparse(d) for a, d in zip(fn.args.args[-len(fn.args.defaults):], fn.args.defaults)}
                out.append(f'(* {what}: defaults {dflt} *)')
            out.append(f'Definition gen_{cname[:-6].lower()}_{meth} : list cinstr := [' + '; '.join(instrs(frame(fn, what), what)) + '].')
        out.append('')
    # the persistent kinds override wait() and add close()
    for fname, cname, short in (('persistent_thread.py', 'PersistentThreadWorker', 'pthread'), ('persistent_process.py', 'PersistentProcessWorker', 'pprocess')):
        tree = ast.parse(open(f'{repo}/pyworkers/{fname}', newline=None).read())
        cls = find_class(tree, cname)
        fn = find_method(cls, 'wait')
        out.append(f'Definition gen_{short}_wait : list cinstr := [' + '; '.join(instrs(frame(fn, cname + '.wait'), cname + '.wait')) + '].')
        # close(): child side sets _stop; parent side releases the child, possibly only if it is still alive
        fn = find_method(cls, 'close')
        body = strip(fn.body)
        ok = (len(body) == 1 and isinstance(body[0], ast.If) and ast.unparse(body[0].test) == 'self.is_child'
              and [ast.unparse(x) for x in strip(body[0].body)] == ['self._stop = True', 'return'])
        if not ok:
            raise Unsupported(f'{cname}.close: expected `if self.is_child: self._stop = True; return  else: ...`')
        rest = strip(body[0].orelse)
        guarded = False
        if rest and isinstance(rest[0], ast.If) and ast.unparse(rest[0].test) == 'not self.is_alive()' and [ast.unparse(x) for x in strip(rest[0].body)] == ['return'] and not rest[0].orelse:
            guarded = True
            rest = rest[1:]
        if [ast.unparse(x) for x in rest] != ['self._release_child()']:
            raise Unsupported(f'{cname}.close: parent side must release the child')
        out.append(f'Definition gen_{short}_close_guarded : bool := {"true" if guarded else "false"}.')
        out.append('')
    return '\n'.join(out)


if __name__ == '__main__':
    import sys
    print(generate(sys.argv[1] if len(sys.argv) > 1 else '/repo'))
