"""Regenerates theories/Gen/Handshake.v: the shape of worker start-up that decides whether a
constructor can wait for ever (C20).
  RemoteWorker._start         -> start_shape (is the connect done by the caller itself, how does it wait for the
                                 start-up event, does it look at the stored handshake error)
  RemoteWorker._run_frontend  -> the list of handshake statements that can fail, each with what a failure does
                                 (sets the start-up event? stores the error?) as read off the enclosing try
  ThreadWorker._start, ProcessWorker._start -> how the parent waits for the child's identity
Fail closed: any statement outside the recognised vocabulary raises Unsupported."""
import ast
from shallow import Unsupported
from gen_registry import find_class, find_method

SKIP_CALLS = ('set_linger', 'set_keepalive', 'setthreadtitle', 'setproctitle')


def src(n):
    return ast.unparse(n)


def is_logger(s):
    return isinstance(s, ast.Expr) and isinstance(s.value, ast.Call) and src(s.value.func).startswith('logger.')


def is_doc(s):
    return isinstance(s, ast.Expr) and isinstance(s.value, ast.Constant)


def sets_event(stmts):
    return any(isinstance(n, ast.Call) and src(n.func) == 'self._startup_sync.set' for s in stmts for n in ast.walk(s))


def stores_error(stmts):
    return any(isinstance(n, ast.Assign) and any(src(t) == 'self._startup_error' for t in n.targets) for s in stmts for n in ast.walk(s))


def handler_props(t):
    """what a failure inside this try's body does: (event is set, error is stored)"""
    ev = st = False
    for h in t.handlers:
        ty = None if h.type is None else src(h.type)
        if ty not in (None, 'BaseException', 'Exception'):
            continue
        if not isinstance(h.body[-1], (ast.Return, ast.Raise)):
            raise Unsupported(f'handler at line {h.lineno} falls through into the success path')
        ev = ev or sets_event(h.body)
        st = st or stores_error(h.body)
    if t.finalbody and sets_event(t.finalbody):
        ev = True
    return ev, st


def classify(call):
    f = src(call.func)
    a0 = src(call.args[0]) if call.args else ''
    if f == 'send_msg' and a0 == 'self._socket':
        return 'FSend'
    if f == 'recv_msg' and a0 == 'self._socket':
        return 'FRecvCtrlAddr'
    if f == 'self._ctrl_sock.connect':
        return 'FConnectCtrl'
    if f == 'recv_msg' and a0 == 'self._ctrl_sock':
        return 'FRecvInfo'
    if f in SKIP_CALLS or f == 'socket.socket':
        return None
    raise Unsupported(f'call `{src(call)[:60]}` in _run_frontend (line {call.lineno})')


def frontend(fn):
    out = []
    done = [False]

    def walk(stmts, ev, st):
        for s in stmts:
            if done[0]:
                return
            if is_logger(s) or is_doc(s) or isinstance(s, ast.Assert):
                continue
            if isinstance(s, ast.Expr) and isinstance(s.value, ast.Call) and src(s.value.func) == 'self._startup_sync.set':
                done[0] = True
                return
            if isinstance(s, ast.Try):
                if s.orelse:
                    raise Unsupported(f'try/else in _run_frontend (line {s.lineno})')
                e2, s2 = handler_props(s)
                walk(s.body, ev or e2, st or s2)
                continue
            if isinstance(s, ast.If) and src(s.test) == 'self._set_names' and not s.orelse:
                walk(s.body, ev, st)
                continue
            if isinstance(s, (ast.Expr, ast.Assign)) and isinstance(s.value, ast.Call):
                k = classify(s.value)
                if k:
                    out.append((k, ev, st, s.lineno))
                continue
            raise Unsupported(f'statement `{src(s)[:60]}` in _run_frontend before the start-up event (line {s.lineno})')
    walk(fn.body, False, False)
    if not done[0]:
        raise Unsupported('_run_frontend never sets the start-up event on its success path')
    return out


def wait_kind(s):
    """WaitForever | WaitOrDeath | None for one statement of a _start"""
    t = src(s)
    if isinstance(s, ast.Expr) and t == 'self._startup_sync.wait()':
        return 'WaitForever'
    if isinstance(s, ast.While) and isinstance(s.test, ast.UnaryOp) and isinstance(s.test.op, ast.Not) \
            and src(s.test.operand).startswith('self._startup_sync.wait(') and s.test.operand.args:
        ok = any(isinstance(b, ast.If) and src(b.test) == 'not self._child.is_alive()' and any(isinstance(x, ast.Break) for x in b.body) for b in s.body)
        return 'WaitOrDeath' if ok else 'WaitForever'
    if isinstance(s, ast.Assign) and src(s.value).startswith('mp.connection.wait('):
        c = s.value
        if len(c.args) == 1 and not c.keywords and isinstance(c.args[0], ast.List):
            names = [src(e) for e in c.args[0].elts]
            if 'self._comms.parent_end' in names:
                return 'WaitOrDeath' if 'self._child.sentinel' in names else 'WaitForever'
        raise Unsupported(f'wait `{t[:60]}` (line {s.lineno})')
    if isinstance(s, (ast.Assign, ast.Expr)) and 'self._comms.parent_end.recv()' in t:
        return 'WaitForever'
    return None


def start_shape(fn, remote):
    connect_first = spawned = False
    wk = None
    checks = False
    for s in fn.body:
        t = src(s)
        if is_logger(s) or is_doc(s) or isinstance(s, ast.Assert):
            continue
        if isinstance(s, ast.Expr) and isinstance(s.value, ast.Call) and src(s.value.func) in SKIP_CALLS:
            continue
        if t.startswith('self._socket = socket.socket(') or t == 'self._dead = False':
            continue
        if t == 'self._socket.connect(self._target_host)':
            connect_first = not spawned
            continue
        if isinstance(s, ast.Assign) and src(s.targets[0]) == 'self._child' and ('threading.Thread(' in t or '.Process(' in t):
            continue
        if t == 'self._child.start()':
            spawned = True
            continue
        k = wait_kind(s)
        if k:
            if not spawned:
                raise Unsupported('_start waits before it starts the child')
            if wk is None:
                wk = k
            continue
        if isinstance(s, ast.If):
            if src(s.test) == 'self._startup_error is not None' and isinstance(s.body[-1], ast.Raise) and not s.orelse:
                checks = wk is not None
                continue
            if src(s.test) == 'self._comms.parent_end in ready' and wk is not None:
                continue
        raise Unsupported(f'statement `{t[:60]}` in {"RemoteWorker" if remote else "a"} _start (line {s.lineno})')
    if not spawned or wk is None:
        raise Unsupported('_start does not start a child and wait for it')
    return connect_first, wk, checks


def b(x):
    return 'true' if x else 'false'


def generate(repo):
    def method(path, cls, name):
        tree = ast.parse(open(f'{repo}/{path}', newline=None).read())
        return find_method(find_class(tree, cls), name)
    rs = start_shape(method('pyworkers/remote.py', 'RemoteWorker', '_start'), True)
    fe = frontend(method('pyworkers/remote.py', 'RemoteWorker', '_run_frontend'))
    ts = start_shape(method('pyworkers/thread.py', 'ThreadWorker', '_start'), False)
    ps = start_shape(method('pyworkers/process.py', 'ProcessWorker', '_start'), False)
    lines = ['(* GENERATED by tools/py2coq/gen_handshake.py from RemoteWorker._start/_run_frontend, ThreadWorker._start, ProcessWorker._start - do not edit *)',
             'From PW Require Import Server.Handshake.', '',
             f'Definition remote_start : start_shape := mkShape {b(rs[0])} {rs[1]} {b(rs[2])}.',
             'Definition remote_frontend : list fe_stmt :=',
             '  [' + ';\n   '.join(f'mkFe {k} {b(ev)} {b(st)} (* line {ln} *)' for k, ev, st, ln in fe) + '].',
             f'Definition thread_start_wait : waitkind := {ts[1]}.',
             f'Definition process_start_wait : waitkind := {ps[1]}.', '']
    return '\n'.join(lines)


if __name__ == '__main__':
    import sys
    print(generate(sys.argv[1] if len(sys.argv) > 1 else '/repo'))
