"""Regenerates theories/Gen/Shutdown.v: the shape of the shutdown paths of the remote server (C12).
Read from the source, fail-closed:
  RemoteServer.run            - the `finally` of the accept loop: which registries its clean-up loop covers, whether it
                                terminates with force, whether it SIGTERMs survivors
  RemoteServer.install_handlers.cleanup - the SIGTERM handler: does it SIGTERM the direct children
  RemoteContextWorker.do_work - is the context's clean-up in a `finally`; does a SIGTERM handler pass the signal on to the
                                workers spawned within the context
  RemoteContext._create_worker - the clean-up branch: terminate with force, SIGTERM survivors
  RemoteWorker.terminate      - server side: after a forced kill, (False, None) is fabricated on the data connection"""
import ast
from shallow import Unsupported
from gen_registry import find_class, find_method


def calls(node):
    return [n for n in ast.walk(node) if isinstance(n, ast.Call)]


def is_sigterm_kill(c, var=None):
    """os.kill(<var>.pid, signal.SIGTERM)"""
    if not (isinstance(c.func, ast.Attribute) and c.func.attr == 'kill' and ast.unparse(c.func.value) == 'os' and len(c.args) == 2):
        return False
    if ast.unparse(c.args[1]) != 'signal.SIGTERM':
        return False
    a = ast.unparse(c.args[0])
    return a.endswith('.pid') and (var is None or a == f'{var}.pid')


def forced_terminate(c, var):
    if not (isinstance(c.func, ast.Attribute) and c.func.attr == 'terminate' and ast.unparse(c.func.value) == var):
        return None
    kw = {k.arg: k.value for k in c.keywords}
    force = kw.get('force')
    t = kw.get('timeout')
    return (isinstance(force, ast.Constant) and force.value is True, ast.unparse(t) if t is not None else None)


def cleanup_loop(body):
    """finds `for <v> in <iter>: ... <v>.terminate(..force..) ... if <v>.is_alive(): os.kill(<v>.pid, SIGTERM)`;
    returns (iter source, forced, sigterm_survivors) or None"""
    for n in body:
        for f in ast.walk(n):
            if isinstance(f, ast.For) and isinstance(f.target, ast.Name):
                v = f.target.id
                ft = [forced_terminate(c, v) for c in calls(f)]
                ft = [x for x in ft if x is not None]
                if not ft:
                    continue
                guarded = False
                for i in ast.walk(f):
                    if isinstance(i, ast.If) and ast.unparse(i.test) == f'{v}.is_alive()' and any(is_sigterm_kill(c, v) for c in calls(i)):
                        guarded = True
                return ast.unparse(f.iter), all(x[0] for x in ft), guarded
    return None


def registry_only_grows(cls):
    """self.children of the server is the list the shutdown paths iterate: it has to hold every direct child ever spawned.  True when, in the
    whole class, it is only ever (re)initialised to [], appended to, and cleared right after a loop over it (the shutdown paths themselves)."""
    def is_reg(e):
        return ast.unparse(e) == 'self.children'
    for n in ast.walk(cls):
        if isinstance(n, (ast.Assign, ast.AugAssign, ast.AnnAssign)):
            targets = n.targets if isinstance(n, ast.Assign) else [n.target]
            for t in targets:
                for x in ast.walk(t):
                    if is_reg(x) and not (isinstance(n, ast.Assign) and t is x and isinstance(n.value, ast.List) and not n.value.elts):
                        return False
        if isinstance(n, ast.Delete) and any(is_reg(x) for t in n.targets for x in ast.walk(t)):
            return False
        if isinstance(n, ast.Call) and isinstance(n.func, ast.Attribute) and is_reg(n.func.value) and n.func.attr not in ('append', 'clear', 'copy', 'index', 'count'):
            return False
    # every clear() directly follows a loop over the registry in the same block
    for n in ast.walk(cls):
        for field in ('body', 'orelse', 'finalbody'):
            block = getattr(n, field, None)
            if not isinstance(block, list):
                continue
            for i, st in enumerate(block):
                if isinstance(st, ast.Expr) and isinstance(st.value, ast.Call) and isinstance(st.value.func, ast.Attribute) \
                        and is_reg(st.value.func.value) and st.value.func.attr == 'clear':
                    if not any(isinstance(p, ast.For) and 'self.children' in ast.unparse(p.iter) for p in block[:i]):
                        return False
    return True


def b(x):
    return 'true' if x else 'false'


def generate(repo):
    srv = ast.parse(open(f'{repo}/pyworkers/remote_server.py', newline=None).read())
    ctxm = ast.parse(open(f'{repo}/pyworkers/remote_context.py', newline=None).read())
    rem = ast.parse(open(f'{repo}/pyworkers/remote.py', newline=None).read())
    out = {}
    # --- RemoteServer.run: the finally of the outermost try
    run = find_method(find_class(srv, 'RemoteServer'), 'run')
    tries = [s for s in run.body if isinstance(s, ast.Try)]
    if len(tries) != 1 or not tries[0].finalbody:
        raise Unsupported('RemoteServer.run: expected one outer try with a finally')
    loop = cleanup_loop(tries[0].finalbody)
    if loop is None:
        out.update(fin_children=False, fin_contexts=False, fin_force=False, fin_sigterm=False)
    else:
        it, forced, sig = loop
        out.update(fin_children='self.children' in it and registry_only_grows(find_class(srv, 'RemoteServer')), fin_contexts='self.contexts.values()' in it, fin_force=forced, fin_sigterm=sig)
    # the accept loop must leave through the finally for the exceptions used to stop the server
    hs = [ast.unparse(h.type) if h.type is not None else 'BaseException' for h in tries[0].handlers]
    out['stop_exceptions_caught'] = any('WorkerTerminatedError' in h for h in hs)
    # --- the SIGTERM handler
    ih = find_method(find_class(srv, 'RemoteServer'), 'install_handlers')
    cleanup = [n for n in ih.body if isinstance(n, ast.FunctionDef) and n.name == 'cleanup']
    installed = any(isinstance(c.func, ast.Attribute) and c.func.attr == 'signal' and len(c.args) == 2
                    and ast.unparse(c.args[0]) == 'signal.SIGTERM' and ast.unparse(c.args[1]) == 'cleanup' for c in calls(ih))
    kills = False
    redelivers = False
    if cleanup:
        for f in ast.walk(cleanup[0]):
            if isinstance(f, ast.For) and ast.unparse(f.iter) == 'self.children' and isinstance(f.target, ast.Name):
                kills = kills or any(is_sigterm_kill(c, f.target.id) for c in calls(f))
        redelivers = any(isinstance(c.func, ast.Attribute) and c.func.attr == 'kill' and ast.unparse(c.args[0]) == 'os.getpid()' for c in calls(cleanup[0]) if c.args)
    out['hnd_kills_children'] = bool(cleanup) and installed and kills and registry_only_grows(find_class(srv, 'RemoteServer'))
    out['hnd_redelivers'] = bool(cleanup) and installed and redelivers
    # --- the context helper
    dw = find_method(find_class(ctxm, 'RemoteContextWorker'), 'do_work')
    clean_in_finally = False
    for t in ast.walk(dw):
        if isinstance(t, ast.Try):
            for c in [c for s in t.finalbody for c in calls(s)]:
                if any(k.arg == '_clean' and isinstance(k.value, ast.Constant) and k.value.value is True for k in c.keywords):
                    clean_in_finally = True
    out['ctx_clean_in_finally'] = clean_in_finally
    passes = False
    handlers = {n.name: n for n in dw.body if isinstance(n, ast.FunctionDef)}
    for c in calls(dw):
        if isinstance(c.func, ast.Attribute) and c.func.attr == 'signal' and len(c.args) == 2 and ast.unparse(c.args[0]) == 'signal.SIGTERM':
            h = handlers.get(ast.unparse(c.args[1]))
            if h is not None:
                for f in ast.walk(h):
                    if isinstance(f, ast.For) and isinstance(f.target, ast.Name) and '_children' in ast.unparse(f.iter):
                        if any(is_sigterm_kill(c2, f.target.id) for c2 in calls(f)):
                            passes = True
    out['ctx_passes_on_sigterm'] = passes
    cw = find_method(find_class(ctxm, 'RemoteContext'), '_create_worker')
    cl = None
    for i in cw.body:
        if isinstance(i, ast.If) and ast.unparse(i.test) == '_clean':
            cl = cleanup_loop(i.body)
    out['ctx_clean_force'] = bool(cl and cl[1])
    out['ctx_clean_sigterm'] = bool(cl and cl[2])
    # --- server-side terminate of a remote worker: fabricated (False, None) after a forced kill
    term = find_method(find_class(rem, 'RemoteWorker'), 'terminate')
    fab = False
    for i in ast.walk(term):
        if isinstance(i, ast.If) and ast.unparse(i.test) == 'force':
            for c in calls(i):
                if isinstance(c.func, ast.Name) and c.func.id == 'send_msg' and len(c.args) >= 2 and ast.unparse(c.args[1]) == '(False, None)':
                    fab = True
    out['forced_kill_reports_none'] = fab
    lines = ['(* GENERATED by tools/py2coq/gen_shutdown.py from pyworkers/remote_server.py, remote_context.py, remote.py - do not edit *)',
             'From PW Require Import Server.ShutdownFlags.',
             'Definition gen_flags : flags := {|']
    order = ['fin_children', 'fin_contexts', 'fin_force', 'fin_sigterm', 'stop_exceptions_caught', 'hnd_kills_children', 'hnd_redelivers',
             'ctx_clean_in_finally', 'ctx_passes_on_sigterm', 'ctx_clean_force', 'ctx_clean_sigterm', 'forced_kill_reports_none']
    lines += [f'  {k} := {b(out[k])}' + (';' if k != order[-1] else '') for k in order]
    lines.append('|}.')
    return '\n'.join(lines) + '\n'


if __name__ == '__main__':
    import sys
    print(generate(sys.argv[1] if len(sys.argv) > 1 else '/repo'))
