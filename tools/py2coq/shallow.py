"""T-A: fail-closed translator from a small imperative subset of Python to monadic
Gallina (theories/Base/PyM.v).  Everything not explicitly recognised raises
Unsupported, which the check reports as a broken tie (translator).

The translation is syntax directed:
  x = e / x += e / x -= e      -> monadic bind of the new value
  if / while / try-except      -> the compound statement becomes a computation
                                  returning the tuple of variables it re-assigns
  raise C() [from e]           -> raise <exn>
  return e                     -> ret e (only in tail position)
  logger.<level>(...)          -> dropped (allow-list)
Effectful calls are described by the `prims` table of the caller.
"""
import ast


class Unsupported(Exception):
    pass


LOG_LEVELS = {'debug', 'info', 'warning', 'error', 'exception', 'details', 'status', 'abusive', 'critical'}


def assigned(stmts):
    out = []
    for s in stmts:
        for n in ast.walk(s):
            if isinstance(n, (ast.Assign,)):
                for t in n.targets:
                    if isinstance(t, ast.Name) and t.id not in out:
                        out.append(t.id)
            elif isinstance(n, ast.AugAssign):
                if isinstance(n.target, ast.Name) and n.target.id not in out:
                    out.append(n.target.id)
    return out


def always_raises(stmts):
    return bool(stmts) and isinstance(stmts[-1], ast.Raise)


class Translator:
    """prims: dict describing calls.
         ('attr', obj, meth) -> (coq_name, [argtypes], rettype, effectful)
         ('name', fname)     -> same
       exn_ctor: python class name -> Coq exn constructor
       exn_cls:  python class name -> Coq exn_class constructor
    """

    def __init__(self, prims, exn_ctor, exn_cls, state_params=('sock',)):
        self.prims = prims
        self.exn_ctor = exn_ctor
        self.exn_cls = exn_cls
        self.state_params = state_params
        self.tmp = 0
        self.funcs = {}   # python name -> (coq name, rettype, argtypes)

    def fresh(self):
        self.tmp += 1
        return f't{self.tmp}_'

    # ---------------- expressions: returns (binds, pure, type)
    def expr(self, e, env):
        if isinstance(e, ast.Name):
            if e.id not in env:
                raise Unsupported(f'unbound variable {e.id} (line {e.lineno})')
            return [], e.id, env[e.id]
        if isinstance(e, ast.Constant):
            if isinstance(e.value, bool):
                return [], ('true' if e.value else 'false'), 'bool'
            if isinstance(e.value, int):
                return [], f'({e.value})', 'int'
            if e.value is None:
                return [], 'tt', 'none'
            raise Unsupported(f'constant {e.value!r} (line {e.lineno})')
        if isinstance(e, ast.BinOp):
            b1, p1, t1 = self.expr(e.left, env)
            b2, p2, t2 = self.expr(e.right, env)
            if isinstance(e.op, ast.Add) and t1 == t2 == 'bytes':
                return b1 + b2, f'({p1} ++ {p2})', 'bytes'
            if isinstance(e.op, ast.Add) and t1 == t2 == 'int':
                return b1 + b2, f'({p1} + {p2})', 'int'
            if isinstance(e.op, ast.Sub) and t1 == t2 == 'int':
                return b1 + b2, f'({p1} - {p2})', 'int'
            raise Unsupported(f'binop {ast.dump(e.op)} on {t1},{t2} (line {e.lineno})')
        if isinstance(e, ast.Compare):
            if len(e.ops) != 1:
                raise Unsupported('chained comparison')
            b1, p1, t1 = self.expr(e.left, env)
            b2, p2, t2 = self.expr(e.comparators[0], env)
            if t1 != 'int' or t2 != 'int':
                raise Unsupported(f'comparison on {t1},{t2} (line {e.lineno})')
            op = {ast.Lt: '<?', ast.LtE: '<=?', ast.Gt: '>?', ast.GtE: '>=?', ast.Eq: '=?'}.get(type(e.ops[0]))
            if op is None:
                if isinstance(e.ops[0], ast.NotEq):
                    return b1 + b2, f'(negb ({p1} =? {p2}))', 'bool'
                raise Unsupported(f'comparison operator (line {e.lineno})')
            return b1 + b2, f'({p1} {op} {p2})', 'bool'
        if isinstance(e, ast.UnaryOp) and isinstance(e.op, ast.Not):
            b, p = self.truthy(e.operand, env)
            return b, f'(negb {p})', 'bool'
        if isinstance(e, ast.Subscript):
            # struct.unpack('!I', x)[0]
            v = e.value
            if (isinstance(v, ast.Call) and self.callee(v) == ('attr', 'struct', 'unpack')
                    and isinstance(e.slice, ast.Constant) and e.slice.value == 0):
                return self.call(v, env, key=('attr', 'struct', 'unpack[0]'))
            raise Unsupported(f'subscript (line {e.lineno})')
        if isinstance(e, ast.Call):
            return self.call(e, env)
        raise Unsupported(f'expression {type(e).__name__} (line {e.lineno})')

    def callee(self, c):
        f = c.func
        if isinstance(f, ast.Name):
            return ('name', f.id)
        if isinstance(f, ast.Attribute) and isinstance(f.value, ast.Name):
            return ('attr', f.value.id, f.attr)
        return None

    def call(self, c, env, key=None):
        key = key or self.callee(c)
        if key is None:
            raise Unsupported(f'call form (line {c.lineno})')
        args = list(c.args)
        if key == ('name', 'bytes') and not args and not c.keywords:
            return [], '([] : bytes)', 'bytes'
        if key[0] == 'name' and key[1] in self.funcs:
            coq, rett, argt = self.funcs[key[1]]
            args = [a for a in args if not (isinstance(a, ast.Name) and a.id in self.state_params)]
            spec = (coq + ' fuel', argt, rett, True)
        elif key in self.prims:
            spec = self.prims[key]
        else:
            raise Unsupported(f'unknown call {key} (line {c.lineno})')
        coq, argt, rett, eff = spec[:4]
        kwpolicy = spec[4] if len(spec) > 4 else ()
        for kw in c.keywords:
            if kw.arg not in kwpolicy:
                raise Unsupported(f'keyword {kw.arg} in call {key} (line {c.lineno})')
        # format-string first arguments such as '!I' are part of the key
        if key in (('attr', 'struct', 'unpack'), ('attr', 'struct', 'unpack[0]'), ('attr', 'struct', 'pack')):
            if not (args and isinstance(args[0], ast.Constant) and args[0].value == '!I'):
                raise Unsupported(f'struct format other than "!I" (line {c.lineno})')
            args = args[1:]
        if len(args) != len(argt):
            raise Unsupported(f'arity of {key} (line {c.lineno})')
        binds, pures = [], []
        for a, t in zip(args, argt):
            b, p, ty = self.expr(a, env)
            if ty != t:
                raise Unsupported(f'argument type {ty} for {key}, expected {t} (line {c.lineno})')
            binds += b
            pures.append(p)
        term = ' '.join([coq] + pures)
        if eff:
            x = self.fresh()
            return binds + [(x, term)], x, rett
        return binds, f'({term})', rett

    def truthy(self, e, env):
        b, p, t = self.expr(e, env)
        if t == 'bool':
            return b, p
        if t == 'bytes':
            return b, f'(bytes_truthy {p})'
        if t == 'int':
            return b, f'(int_truthy {p})'
        raise Unsupported(f'truthiness of {t} (line {e.lineno})')

    @staticmethod
    def wrap(binds, body):
        for x, m in reversed(binds):
            body = f'{x} <- {m} ;;\n{body}'
        return body

    @staticmethod
    def tup(vs):
        if not vs:
            return 'tt'
        if len(vs) == 1:
            return vs[0]
        return '(' + ', '.join(vs) + ')'

    @staticmethod
    def pat(vs):
        if not vs:
            return '_'
        if len(vs) == 1:
            return vs[0]
        return "'(" + ', '.join(vs) + ')'

    # ---------------- statements
    def is_log(self, s):
        if isinstance(s, ast.Expr) and isinstance(s.value, ast.Call):
            k = self.callee(s.value)
            return k is not None and k[0] == 'attr' and k[1] == 'logger' and k[2] in LOG_LEVELS
        return False

    def stmts(self, ss, env, tail):
        """ss: list of statements; tail(env) -> Gallina for what follows."""
        if not ss:
            return tail(env)
        s, rest = ss[0], ss[1:]
        k = lambda env2: self.stmts(rest, env2, tail)
        if self.is_log(s):
            return k(env)
        if isinstance(s, ast.Expr) and isinstance(s.value, ast.Constant) and isinstance(s.value.value, str):
            return k(env)  # docstring
        if isinstance(s, ast.Assign):
            if len(s.targets) != 1 or not isinstance(s.targets[0], ast.Name):
                raise Unsupported(f'assignment target (line {s.lineno})')
            b, p, t = self.expr(s.value, env)
            x = s.targets[0].id
            env2 = dict(env); env2[x] = t
            return self.wrap(b, f'{x} <- ret {p} ;;\n{k(env2)}')
        if isinstance(s, ast.AugAssign):
            if not isinstance(s.target, ast.Name):
                raise Unsupported(f'augmented assignment target (line {s.lineno})')
            fake = ast.BinOp(left=ast.Name(id=s.target.id, ctx=ast.Load(), lineno=s.lineno), op=s.op, right=s.value, lineno=s.lineno)
            b, p, t = self.expr(fake, env)
            env2 = dict(env); env2[s.target.id] = t
            return self.wrap(b, f'{s.target.id} <- ret {p} ;;\n{k(env2)}')
        if isinstance(s, ast.Expr) and isinstance(s.value, ast.Call):
            b, p, t = self.call(s.value, env)
            return self.wrap(b, k(env))
        if isinstance(s, ast.Raise):
            return self.raise_(s)
        if isinstance(s, ast.Return):
            if rest:
                raise Unsupported(f'statements after return (line {s.lineno})')
            if s.value is None:
                return 'ret tt'
            b, p, t = self.expr(s.value, env)
            self.rettype = t
            return self.wrap(b, f'ret {p}')
        if isinstance(s, ast.If):
            carried = [v for v in assigned(s.body + s.orelse) if v in env]
            b, c = self.truthy(s.test, env)
            fin = lambda env2: f'ret {self.tup(carried)}'
            tb = self.stmts(s.body, env, fin)
            eb = self.stmts(s.orelse, env, fin)
            return self.wrap(b, f'{self.pat(carried)} <- (if {c} then ({tb}) else ({eb})) ;;\n{k(env)}')
        if isinstance(s, ast.While):
            if s.orelse:
                raise Unsupported('while-else')
            for n in ast.walk(s):
                if isinstance(n, (ast.Break, ast.Continue, ast.Return)):
                    raise Unsupported(f'break/continue/return inside while (line {n.lineno})')
            carried = [v for v in assigned(s.body) if v in env]
            b, c = self.truthy(s.test, env)
            if b:
                raise Unsupported(f'effectful loop condition (line {s.lineno})')
            body = self.stmts(s.body, env, lambda env2: f'ret {self.tup(carried)}')
            lam = 'fun ' + (self.pat(carried) if carried else '_') + ' => '
            lamu = lam if carried else 'fun (_ : unit) => '
            return (f'{self.pat(carried)} <- while_ fuel ({lamu}{c}) ({lamu}({body})) {self.tup(carried)} ;;\n{k(env)}')
        if isinstance(s, ast.Try):
            if s.finalbody or s.orelse:
                raise Unsupported(f'try/finally or try/else (line {s.lineno})')
            if len(s.handlers) != 1:
                raise Unsupported(f'{len(s.handlers)} handlers (line {s.lineno})')
            h = s.handlers[0]
            if not always_raises(h.body):
                raise Unsupported(f'handler that does not end in raise (line {h.lineno})')
            classes = self.handler_classes(h)
            defs = []
            env_after = dict(env)

            def fin(env2):
                # variables first bound inside a nested loop/branch are local to it
                defs[:] = [v for v in assigned(s.body) if v in env2]
                env_after.update({v: env2[v] for v in defs})
                return f'ret {self.tup(defs)}'
            body = self.stmts(s.body, env, fin)
            hb = self.stmts(h.body, env, lambda env2: 'ret tt')
            return (f'{self.pat(defs)} <- try_except ({body}) [{"; ".join(classes)}] (fun _ => {hb}) ;;\n{k(env_after)}')
        raise Unsupported(f'statement {type(s).__name__} (line {s.lineno})')

    def handler_classes(self, h):
        t = h.type
        if t is None:
            return ['CBaseException']
        names = [t] if isinstance(t, ast.Name) else list(t.elts) if isinstance(t, ast.Tuple) else None
        if names is None:
            raise Unsupported(f'except clause (line {h.lineno})')
        out = []
        for n in names:
            nm = n.id if isinstance(n, ast.Name) else (n.value.id + '.' + n.attr if isinstance(n, ast.Attribute) and isinstance(n.value, ast.Name) else None)
            if nm not in self.exn_cls:
                raise Unsupported(f'exception class {nm} (line {h.lineno})')
            out.append(self.exn_cls[nm])
        return out

    def raise_(self, s):
        e = s.exc
        if isinstance(e, ast.Call) and isinstance(e.func, ast.Name) and not e.args and not e.keywords:
            nm = e.func.id
        elif isinstance(e, ast.Name):
            nm = e.id
        else:
            raise Unsupported(f'raise form (line {s.lineno})')
        if nm not in self.exn_ctor:
            raise Unsupported(f'raised class {nm} (line {s.lineno})')
        return f'raise {self.exn_ctor[nm]}'

    def function(self, fdef, coq_name, param_types, rettype_decl):
        env = {}
        params = []
        for a in fdef.args.args:
            if a.arg in self.state_params:
                continue
            if a.arg not in param_types:
                raise Unsupported(f'parameter {a.arg} of {fdef.name}')
            if param_types[a.arg] is None:
                continue  # ignored parameter (comment, state_overwrites ...)
            env[a.arg] = param_types[a.arg][0]
            params.append(f'({a.arg} : {param_types[a.arg][1]})')
        if fdef.args.vararg or fdef.args.kwarg or fdef.args.kwonlyargs:
            raise Unsupported(f'signature of {fdef.name}')
        self.rettype = 'none'
        body = self.stmts(fdef.body, env, lambda env2: 'ret tt')
        self.funcs[fdef.name] = (coq_name, self.rettype, [param_types[a.arg][0] for a in fdef.args.args
                                                        if a.arg not in self.state_params and param_types[a.arg] is not None])
        return (f'Definition {coq_name} (fuel : nat) {" ".join(params)} : @M sock {rettype_decl} :=\n({body})%pym.\n')


def find_function(tree, name):
    for n in tree.body:
        if isinstance(n, ast.FunctionDef) and n.name == name:
            return n
    return None
