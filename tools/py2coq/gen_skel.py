"""T-S: regenerates theories/Gen/Skel.v - the control skeletons of the child run loops
(ThreadWorker._run, ProcessWorker._run and the persistent _cleanup methods): nesting of
try/except/finally/if, the exception classes each handler catches, one effect label per
simple statement.  Also returns, for the injection harness, the map line number -> label.
Unknown statements fail closed."""
import ast
import re
from shallow import Unsupported, LOG_LEVELS
from gen_registry import find_class, find_method

# (regex on the unparsed statement) -> effect label; first match wins
COMMON = [
    (r'^assert ', 'Nop'),
    (r'^self\._(tid|ident|pid|is_child|child|terminate_req) = ', 'Nop'),
    (r'^self\._ctrl_thread_sync = ', 'Nop'),
    (r'^self\._ctrl_thread = ', 'Nop'),
    (r'^self\._ctrl_thread\.start\(\)$', 'StartCtrl'),
    (r'^self\._ctrl_thread_sync\.wait\(\)$', 'Nop'),
    (r'^self\._comms\.parent_end\.close\(\)$', 'Nop'),
    (r'^self\._startup_sync\.set\(\)$', 'StartupDone'),
    (r'^self\._init_child\(\)$', 'InitChild'),
    (r'^self\._cleanup\(\)$', 'Cleanup'),
    (r'^self\._comms\.child_end\.put\(\(self\._pid, self\._tid, self\._ident\)\)$', 'SendInfo'),
    (r'^self\._comms\.child_end\.put\(\(\(True, result\), self\._user_state\)\)$', 'SendResOk'),
    (r'^self\._comms\.child_end\.put\(\(\(False, e\), self\._user_state\)\)$', 'SendResErr'),
    (r'^self\._result = \(False, e\)$', 'SetResErr'),
    (r'^self\._ctrl_comms\.parent_end\.send\(None\)$', 'ReleaseCtrl'),
    (r'^self\._ctrl_thread\.join\(\)$', 'JoinCtrl'),
    (r'^self\._comms\.child_end\.close\(\)$', 'CloseComms'),
    # persistent _cleanup
    (r'^self\._results_pipe\.child_end\.put\(\(self\._counter, False, None, self\.id\)\)$', 'PutEnd'),
    (r'^self\._results_pipe\.child_end\.close\(\)$', 'CloseResults'),
    (r'^self\._args_pipe\.child_end\.close\(\)$', 'CloseArgs'),
    (r'^self\._cleaned_up = True$', 'SetCleaned'),
    (r'^return$', 'Return'),
    (r'^pass$', 'Nop'),
    # remote backend (_run_backend): prelude
    (r'^signal\.signal\(signal\.SIGTERM, signal\.SIG_DFL\)$', 'Nop'),
    (r'^set_linger\(self\._socket, True, 5\)$', 'Nop'),
    (r'^self\._(is_backend|host|payload) = ', 'Nop'),
    (r'^self\._aux_socket_my, self\._aux_socket_ctrl = ', 'Nop'),
    (r'^self\._ctrl_thread_loc = threading\.Thread\(', 'Nop'),
    (r'^self\._ctrl_thread_loc\.start\(\)$', 'StartCtrl'),
    (r'^main_module = types\.ModuleType\(', 'Nop'),
    (r'^main_content = runpy\.run_path\(', 'Nop'),
    (r'^main_module\.__dict__\.update\(main_content\)$', 'Nop'),
    (r"^sys\.modules\['__main__'\] = sys\.modules\['__new_main__'\] = main_module$", 'Nop'),
    (r'^self\._target, self\._args, self\._kwargs = remote_pickle\.loads\(self\._payload\)$', 'Nop'),
    # remote backend: the start-up exchange with the server process, the local variable `result`, the data socket
    (r'^self\._comms\.child_end\.send\(\(self\._host, self\._pid, self\._tid, self\._ident\)\)$', 'SendInfo'),
    (r'^unused_sync = self\._comms\.child_end\.recv\(\)$', 'RecvSync'),
    (r'^result = None$', 'VarNone'),
    (r'^result = \(True, result\)$', 'VarOk'),
    (r'^result = \(False, e\)$', 'VarErr'),
    (r'^result = \(False, None\)$', 'VarErrNone'),
    (r'^self\._ctrl_thread_loc\.join\(\)$', 'JoinCtrl'),
    (r"^send_msg\(self\._socket, result, 'data: result'\)$", 'SockSendVar'),
    (r"^send_msg\(self\._socket, self\._user_state, 'data: user state'\)$", 'SockSendState'),
    (r'^self\._socket\.shutdown\(socket\.SHUT_WR\)$', 'SockShut'),
    (r'^self\._socket\.close\(\)$', 'SockClose'),
    (r'^self\._aux_socket_my\.close\(\)$', 'Nop'),
    # persistent remote _cleanup: the end-of-stream marker goes through the data socket
    (r'^send_msg\(self\._socket, \(self\._counter, False, None, self\.id\)\)$', 'PutEndSock'),
]
CONDS = [
    (r'^self\._set_names$', 'CSetNames'),
    (r'^self\._ctrl_thread\.is_alive\(\) and \(?not self\._terminate_req\)?$', 'CCtrlAliveNotTerm'),
    (r'^self\._cleaned_up$', 'CCleaned'),
    (r"^hasattr\(self\._results_pipe\.child_end, 'close'\)$", 'CHasClose'),
    # remote backend; conditions with a fixed value in the runs the model covers (Linux, constructor defaults)
    (r'^self\._reset_sigterm_hnd$', 'CFalse'),
    (r'^is_windows\(\)$', 'CFalse'),
    (r'^is_windows\(\) and self\._aux_socket_my is not None$', 'CFalse'),
    (r'^self\._main_path$', 'CFalse'),
    (r"^not hasattr\(self, '_target'\)$", 'CTrue'),
    (r'^self\._ctrl_thread_loc\.is_alive\(\)$', 'CCtrlAlive'),
    (r"^hasattr\(self, '_ctrl_thread_loc'\) and self\._ctrl_thread_loc\.is_alive\(\)$", 'CCtrlAlive'),
    (r'^result is None$', 'CVarNone'),
]
EXC = {'Exception': 'XException', 'BaseException': 'XBaseException', 'ConnectionClosedError': 'XConnClosed'}


def is_log(s):
    return (isinstance(s, ast.Expr) and isinstance(s.value, ast.Call) and isinstance(s.value.func, ast.Attribute)
            and isinstance(s.value.func.value, ast.Name) and s.value.func.value.id == 'logger' and s.value.func.attr in LOG_LEVELS)


class Skel:
    def __init__(self):
        self.lines = {}   # lineno -> label (for the injection harness)

    def label(self, s):
        src = ast.unparse(s)
        if is_log(s):
            return ['Log']
        # statements that contain the call of the target
        if re.match(r'^self\._result = \(True, self\.do_work\(\)\)$', src):
            return ['CallTarget', 'SetResOk']
        if re.match(r'^result = self\.do_work\(\)$', src):
            return ['CallTarget']
        if re.match(r'^(setthreadtitle|setproctitle)\(', src):
            return ['Nop']
        for rx, lab in COMMON:
            if re.match(rx, src):
                return [lab]
        raise Unsupported(f'unclassified statement `{src[:70]}` (line {s.lineno})')

    def cond(self, e):
        src = ast.unparse(e)
        for rx, lab in CONDS:
            if re.match(rx, src):
                return lab
        raise Unsupported(f'unclassified condition `{src[:70]}` (line {e.lineno})')

    def block(self, stmts):
        out = []
        for s in stmts:
            if isinstance(s, ast.Expr) and isinstance(s.value, ast.Constant):
                continue
            if isinstance(s, ast.Try):
                hs = []
                for h in s.handlers:
                    names = [h.type] if not isinstance(h.type, ast.Tuple) else h.type.elts
                    cls = []
                    for n in names:
                        nm = 'BaseException' if n is None else ast.unparse(n)     # a bare `except:` catches everything
                        if nm not in EXC:
                            raise Unsupported(f'handler class {nm} (line {h.lineno})')
                        cls.append(EXC[nm])
                    hs.append(f'([{"; ".join(cls)}], {self.block(h.body)})')
                if s.orelse:
                    raise Unsupported(f'try/else (line {s.lineno})')
                out.append(f'Try ({self.block(s.body)}) [{"; ".join(hs)}] ({self.block(s.finalbody)})')
            elif isinstance(s, ast.If):
                c = self.cond(s.test)
                self.lines[s.lineno] = 'If ' + c
                out.append(f'IfC {c} ({self.block(s.body)}) ({self.block(s.orelse)})')
            elif isinstance(s, (ast.While, ast.For, ast.With)):
                raise Unsupported(f'{type(s).__name__} in a run skeleton (line {s.lineno})')
            else:
                labs = self.label(s)
                self.lines[s.lineno] = '+'.join(labs)
                out += [('CallTarget' if l == 'CallTarget' else f'Eff {l}') for l in labs]
        return 'Seq [' + '; '.join(out) + ']'


TARGETS = [('thread_run', 'thread.py', 'ThreadWorker', '_run'),
           ('process_run', 'process.py', 'ProcessWorker', '_run'),
           ('pthread_cleanup', 'persistent_thread.py', 'PersistentThreadWorker', '_cleanup'),
           ('pprocess_cleanup', 'persistent_process.py', 'PersistentProcessWorker', '_cleanup'),
           ('remote_backend', 'remote.py', 'RemoteWorker', '_run_backend'),
           ('premote_cleanup', 'persistent_remote.py', 'PersistentRemoteWorker', '_cleanup')]


def skeletons(repo):
    out = {}
    for name, fn, cls, meth in TARGETS:
        tree = ast.parse(open(f'{repo}/pyworkers/{fn}', newline=None).read())
        m = find_method(find_class(tree, cls), meth)
        sk = Skel()
        term = sk.block(m.body)
        out[name] = (term, sk.lines, fn, m.lineno)
    return out


def generate(repo):
    sks = skeletons(repo)
    lines = ['(* GENERATED by tools/py2coq/gen_skel.py from pyworkers/{thread,process,remote,persistent_thread,persistent_process,persistent_remote}.py - do not edit *)',
             'From PW Require Import Child.Skel.', '']
    for name, (term, _, fn, ln) in sks.items():
        lines.append(f'(* {fn}:{ln} *)')
        lines.append(f'Definition sk_{name} : stm := {term}.')
        lines.append('')
    return '\n'.join(lines)


if __name__ == '__main__':
    import sys
    print(generate(sys.argv[1] if len(sys.argv) > 1 else '/repo'))
