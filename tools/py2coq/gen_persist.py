"""Regenerates theories/Gen/Persist.v: the per-iteration instruction lists of the three
persistent `do_work` loops, of `_send_result` and of `_cleanup`
(persistent_thread.py, persistent_process.py, persistent_remote.py).
Each statement of the loop body is classified into one instruction of the small
machine interpreted by Persist/Model.v; unknown statements fail closed."""
import ast
from shallow import Unsupported, LOG_LEVELS
from gen_registry import find_class, find_method

KINDS = [('thread', 'persistent_thread.py', 'PersistentThreadWorker'),
         ('process', 'persistent_process.py', 'PersistentProcessWorker'),
         ('remote', 'persistent_remote.py', 'PersistentRemoteWorker')]


def is_log(s):
    return (isinstance(s, ast.Expr) and isinstance(s.value, ast.Call) and isinstance(s.value.func, ast.Attribute)
            and isinstance(s.value.func.value, ast.Name) and s.value.func.value.id == 'logger' and s.value.func.attr in LOG_LEVELS)


def self_attr(e, name=None):
    return isinstance(e, ast.Attribute) and isinstance(e.value, ast.Name) and e.value.id == 'self' and (name is None or e.attr == name)


def copy_kind(e, attr):
    """how `e` derives from self.<attr>: returns (kind, listified)"""
    listified = False
    if isinstance(e, ast.Call) and isinstance(e.func, ast.Name) and e.func.id in ('list', 'dict') and len(e.args) == 1:
        listified = True
        e = e.args[0]
    if isinstance(e, ast.Call) and isinstance(e.func, ast.Attribute) and isinstance(e.func.value, ast.Name) and e.func.value.id == 'copy' and len(e.args) == 1:
        inner = e.args[0]
        if isinstance(inner, ast.Call) and isinstance(inner.func, ast.Name) and inner.func.id in ('list', 'dict') and len(inner.args) == 1:
            listified = True
            inner = inner.args[0]
        if not self_attr(inner, attr):
            raise Unsupported(f'copy of something else than self.{attr}')
        if e.func.attr == 'deepcopy':
            return 'Deep', listified
        if e.func.attr == 'copy':
            return 'Shallow', True   # copy.copy of a list is a new list; of a tuple it is the same tuple
        raise Unsupported(f'copy.{e.func.attr}')
    if self_attr(e, attr):
        return ('Shallow' if listified else 'Alias'), listified
    raise Unsupported(f'right-hand side of args/kwargs assignment (line {e.lineno})')


def is_get(e):
    """the call that fetches the next (args, kwargs) or None"""
    if isinstance(e, ast.Call) and isinstance(e.func, ast.Attribute) and e.func.attr == 'get':
        return True
    if isinstance(e, ast.Call) and isinstance(e.func, ast.Name) and e.func.id == 'recv_msg':
        return True
    return False


def classify_body(stmts, out):
    for s in stmts:
        if is_log(s) or (isinstance(s, ast.Expr) and isinstance(s.value, ast.Constant)):
            continue
        if isinstance(s, ast.Assign) and len(s.targets) == 1:
            t, v = s.targets[0], s.value
            if isinstance(t, ast.Name) and t.id == 'args':
                k, l = copy_kind(v, '_args'); out.append(f'ICopyArgs {k} {"true" if l else "false"}'); continue
            if isinstance(t, ast.Name) and t.id == 'kwargs':
                k, l = copy_kind(v, '_kwargs'); out.append(f'ICopyKwargs {k}'); continue
            if isinstance(t, ast.Name) and t.id == 'extra' and is_get(v):
                out.append('IGet'); continue
            if isinstance(t, ast.Tuple) and [getattr(e, 'id', None) for e in t.elts] == ['extra_args', 'extra_kwargs'] \
                    and isinstance(v, ast.Name) and v.id == 'extra':
                out.append('IUnpack'); continue
            if isinstance(t, ast.Name) and t.id == 'result' and isinstance(v, ast.Call) and self_attr(v.func, 'run') \
                    and len(v.args) == 1 and isinstance(v.args[0], ast.Starred) and getattr(v.args[0].value, 'id', None) == 'args' \
                    and len(v.keywords) == 1 and v.keywords[0].arg is None and getattr(v.keywords[0].value, 'id', None) == 'kwargs':
                out.append('IRun'); continue
            # args[0:len(extra_args)] = extra_args
            if (isinstance(t, ast.Subscript) and getattr(t.value, 'id', None) == 'args' and isinstance(t.slice, ast.Slice)
                    and isinstance(t.slice.lower, ast.Constant) and t.slice.lower.value == 0 and t.slice.step is None
                    and isinstance(t.slice.upper, ast.Call) and getattr(t.slice.upper.func, 'id', None) == 'len'
                    and getattr(t.slice.upper.args[0], 'id', None) == 'extra_args' and getattr(v, 'id', None) == 'extra_args'):
                out.append('ISlice'); continue
            raise Unsupported(f'assignment in do_work (line {s.lineno})')
        if isinstance(s, ast.Expr) and isinstance(s.value, ast.Call):
            c = s.value
            if isinstance(c.func, ast.Attribute) and getattr(c.func.value, 'id', None) == 'kwargs' and c.func.attr == 'update' \
                    and len(c.args) == 1 and getattr(c.args[0], 'id', None) == 'extra_kwargs':
                out.append('IUpdate'); continue
            if self_attr(c.func, '_send_result') and len(c.args) == 1 and getattr(c.args[0], 'id', None) == 'result':
                out.append('ISend'); continue
            # mp.connection.wait([...]) before the blocking get: no effect on the data
            if isinstance(c.func, ast.Attribute) and c.func.attr == 'wait':
                continue
            raise Unsupported(f'call in do_work (line {s.lineno})')
        if isinstance(s, ast.If):
            t = s.test
            if isinstance(t, ast.Compare) and getattr(t.left, 'id', None) == 'extra' and isinstance(t.ops[0], ast.Is) \
                    and isinstance(t.comparators[0], ast.Constant) and t.comparators[0].value is None \
                    and all(isinstance(b, ast.Break) or is_log(b) for b in s.body) and not s.orelse:
                out.append('IBreakNone'); continue
            if isinstance(t, ast.Call) and getattr(t.func, 'id', None) == 'is_windows':
                continue   # Windows-only wake-up socket: not modelled (Linux)
            raise Unsupported(f'if in do_work (line {s.lineno})')
        if isinstance(s, ast.Try):
            # try: <get> except <closed/empty>: break
            if s.finalbody or s.orelse or len(s.handlers) != 1 or not all(isinstance(b, ast.Break) or is_log(b) or isinstance(b, ast.Expr) for b in s.handlers[0].body) \
                    or not any(isinstance(b, ast.Break) for b in s.handlers[0].body):
                raise Unsupported(f'try in do_work (line {s.lineno})')
            classify_body(s.body, out)
            continue
        raise Unsupported(f'statement {type(s).__name__} in do_work (line {s.lineno})')


def do_work_program(fn):
    loops = [s for s in fn.body if isinstance(s, ast.While)]
    if len(loops) != 1:
        raise Unsupported('do_work: expected exactly one while loop')
    w = loops[0]
    t = w.test
    if not (isinstance(t, ast.UnaryOp) and isinstance(t.op, ast.Not) and self_attr(t.operand, '_stop')):
        raise Unsupported('do_work: loop condition is not `not self._stop`')
    rest = [s for s in fn.body if s is not w and not is_log(s)]
    if not (len(rest) == 1 and isinstance(rest[0], ast.Return) and self_attr(rest[0].value, '_counter')):
        raise Unsupported('do_work: expected `return self._counter` after the loop')
    out = []
    classify_body(w.body, out)
    return out


def send_program(fn):
    out = []
    for s in fn.body:
        if is_log(s):
            continue
        if isinstance(s, ast.AugAssign) and self_attr(s.target, '_counter') and isinstance(s.op, ast.Add) and getattr(s.value, 'value', None) == 1:
            out.append('ICounterInc'); continue
        if isinstance(s, ast.Expr) and isinstance(s.value, ast.Call):
            c = s.value
            tup = None
            for a in c.args:
                if isinstance(a, ast.Tuple) and len(a.elts) == 4:
                    tup = a
            if tup is not None and self_attr(tup.elts[0], '_counter') and isinstance(tup.elts[1], ast.Constant) and tup.elts[1].value is True \
                    and getattr(tup.elts[2], 'id', None) == 'result' and self_attr(tup.elts[3], 'id'):
                out.append('IPutResult'); continue
        raise Unsupported(f'statement in _send_result (line {s.lineno})')
    return out


def cleanup_program(fn):
    """_cleanup: classify into IGuardCleaned / IPutEnd / ICloseResults / ICloseArgs / ISetCleaned"""
    out = []

    def walk(stmts, swallow=False):
        for s in stmts:
            if is_log(s):
                continue
            if isinstance(s, ast.If):
                if self_attr(s.test, '_cleaned_up') and len(s.body) == 1 and isinstance(s.body[0], ast.Return):
                    out.append('IGuardCleaned'); continue
                if isinstance(s.test, ast.Call) and getattr(s.test.func, 'id', None) == 'hasattr':
                    walk(s.body, swallow); continue
                raise Unsupported(f'if in _cleanup (line {s.lineno})')
            if isinstance(s, ast.Try):
                if s.finalbody or s.orelse or len(s.handlers) != 1:
                    raise Unsupported(f'try in _cleanup (line {s.lineno})')
                walk(s.body, True); continue
            if isinstance(s, ast.Assign) and self_attr(s.targets[0], '_cleaned_up') and getattr(s.value, 'value', None) is True:
                out.append('ISetCleaned'); continue
            if isinstance(s, ast.Expr) and isinstance(s.value, ast.Call):
                c = s.value
                tup = [a for a in c.args if isinstance(a, ast.Tuple) and len(a.elts) == 4]
                if tup and self_attr(tup[0].elts[0], '_counter') and getattr(tup[0].elts[1], 'value', 1) is False:
                    out.append('IPutEnd' + ('Swallow' if swallow else '')); continue
                if isinstance(c.func, ast.Attribute) and c.func.attr == 'close':
                    src = ast.unparse(c.func.value)
                    if '_results_pipe' in src:
                        out.append('ICloseResults'); continue
                    if '_args_pipe' in src:
                        out.append('ICloseArgs'); continue
            if isinstance(s, ast.Pass):
                continue
            raise Unsupported(f'statement in _cleanup (line {s.lineno})')
    walk(fn.body)
    return out


def guard_terms(t):
    """the disjuncts of the condition under which enqueue raises WorkerClosedError"""
    if isinstance(t, ast.BoolOp) and isinstance(t.op, ast.Or):
        return [x for v in t.values for x in guard_terms(v)]
    return [t]


def enqueue_guard(fn):
    """enqueue(): [if self.is_remote_side: raise RuntimeError]; if <guard>: raise WorkerClosedError(self); <hand (args, kwargs) to the child>.
    The guard is classified term by term: a LIVE liveness query (`not self.is_alive()`), the closed flag (`self._closed`), the connection flag of the
    remote kind (`self._socket_closed`), or CACHED knowledge about the child (`self._dead`, `not self._started`)."""
    asks = closed = cached = False
    seen_guard = False
    for s in fn.body:
        if is_log(s) or (isinstance(s, ast.Expr) and isinstance(s.value, ast.Constant)):
            continue
        if isinstance(s, ast.If) and not s.orelse and len(s.body) == 1 and isinstance(s.body[0], ast.Raise):
            exc = s.body[0].exc
            name = getattr(getattr(exc, 'func', None), 'id', None)
            if name == 'RuntimeError' and self_attr(s.test, 'is_remote_side') and not seen_guard:
                continue
            if name == 'WorkerClosedError' and not seen_guard:
                seen_guard = True
                for t in guard_terms(s.test):
                    neg = isinstance(t, ast.UnaryOp) and isinstance(t.op, ast.Not)
                    inner = t.operand if neg else t
                    if neg and isinstance(inner, ast.Call) and self_attr(inner.func, 'is_alive') and not inner.args:
                        asks = True
                    elif not neg and self_attr(inner, '_closed'):
                        closed = True
                    elif not neg and self_attr(inner, '_socket_closed'):
                        pass
                    elif (not neg and self_attr(inner, '_dead')) or (neg and self_attr(inner, '_started')):
                        cached = True
                    else:
                        raise Unsupported(f'enqueue guard: term `{ast.unparse(t)}` (line {t.lineno})')
                continue
            raise Unsupported(f'if in enqueue (line {s.lineno})')
        body = s.body if isinstance(s, ast.Try) and not s.finalbody and not s.orelse else [s]
        if (seen_guard and len(body) == 1 and isinstance(body[0], ast.Expr) and isinstance(body[0].value, ast.Call)
                and any(isinstance(a, ast.Tuple) and [getattr(e, 'id', None) for e in a.elts] == ['args', 'kwargs'] for a in body[0].value.args)):
            continue
        raise Unsupported(f'statement in enqueue (line {s.lineno})')
    if not seen_guard:
        raise Unsupported('enqueue: no guard raising WorkerClosedError')
    b = lambda x: 'true' if x else 'false'   # noqa: E731
    return f'mkGuard {b(asks)} {b(closed)} {b(cached)}'


def generate(repo):
    lines = ['(* GENERATED by tools/py2coq/gen_persist.py from pyworkers/persistent_{thread,process,remote}.py - do not edit *)',
             'From Coq Require Import List.', 'Import ListNotations.', 'From PW Require Import Persist.Instr.', '']
    for kind, fn, cls in KINDS:
        tree = ast.parse(open(f'{repo}/pyworkers/{fn}').read())
        c = find_class(tree, cls)
        prog = do_work_program(find_method(c, 'do_work'))
        lines.append(f'Definition do_work_{kind} : list instr := [{"; ".join(prog)}].')
        lines.append(f'Definition send_result_{kind} : list sinstr := [{"; ".join(send_program(find_method(c, "_send_result")))}].')
        lines.append(f'Definition cleanup_{kind} : list cinstr := [{"; ".join(cleanup_program(find_method(c, "_cleanup")))}].')
        lines.append(f'Definition enq_guard_{kind} : enq_guard := {enqueue_guard(find_method(c, "enqueue"))}.')
        lines.append('')
    return '\n'.join(lines)


if __name__ == '__main__':
    import sys
    print(generate(sys.argv[1] if len(sys.argv) > 1 else '/repo'))
