"""Regenerates theories/Gen/MroScan.v from SupportRemoteGetStateMeta.__check_type_cached
(pyworkers/remote_pickle.py): the body of the loop over the MRO becomes a step
function over class descriptors, with break / continue / raise Warning as results."""
import ast
from shallow import Unsupported
from gen_registry import find_class, find_method

TRACKED = ('allow_remote', 'has_remote')
IGNORED = ('d', 'signature', 'param_names', 'param_kinds', 'msg', 'first_not_remote')


def cond(e):
    """condition over the current base class -> Gallina bool over descriptor b / tracked vars"""
    src = ast.unparse(e)
    if isinstance(e, ast.BoolOp):
        op = ' || ' if isinstance(e.op, ast.Or) else ' && '
        return '(' + op.join(cond(v) for v in e.values) + ')'
    if isinstance(e, ast.UnaryOp) and isinstance(e.op, ast.Not):
        return f'(negb {cond(e.operand)})'
    if isinstance(e, ast.Name) and e.id in TRACKED:
        return e.id
    table = {
        "d.get('__reduce_ex__')": 'd_reduce_ex b',
        "d.get('__reduce__')": 'd_reduce b',
        "d.get('__getstate__')": 'd_getstate b',
        "'remote' in param_names": 'takes_remote b',
        "inspect.Parameter.VAR_KEYWORD in param_kinds": 'has_varkw b',
    }
    if src in table:
        return table[src]
    raise Unsupported(f'condition `{src}` (line {e.lineno})')


def state():
    return '(' + ', '.join(TRACKED) + ')'


def body(stmts):
    """CPS translation of a statement list; falls off the end -> SNext"""
    if not stmts:
        return f'SNext {state()}'
    s, rest = stmts[0], stmts[1:]
    if isinstance(s, ast.Assign) and len(s.targets) == 1 and isinstance(s.targets[0], ast.Name):
        n = s.targets[0].id
        if n in IGNORED:
            return body(rest)
        if n in TRACKED and isinstance(s.value, ast.Constant) and isinstance(s.value.value, bool):
            return f'(let {n} := {"true" if s.value.value else "false"} in {body(rest)})'
        raise Unsupported(f'assignment to {n} (line {s.lineno})')
    if isinstance(s, ast.AugAssign) and isinstance(s.target, ast.Name) and s.target.id in IGNORED:
        return body(rest)
    if isinstance(s, ast.If):
        return f'(if {cond(s.test)} then {body(s.body + rest)} else {body(s.orelse + rest)})'
    if isinstance(s, ast.Try):
        # try: signature = inspect.signature(...)  except (ValueError, TypeError): <handler>
        ok = (len(s.body) == 1 and isinstance(s.body[0], ast.Assign) and ast.unparse(s.body[0].targets[0]) == 'signature'
              and 'inspect.signature' in ast.unparse(s.body[0].value) and len(s.handlers) == 1 and not s.orelse and not s.finalbody)
        if not ok:
            raise Unsupported(f'try statement (line {s.lineno})')
        return f'(if sig_unavailable b then {body(s.handlers[0].body + rest)} else {body(rest)})'
    if isinstance(s, ast.Break):
        return f'SBreak {state()}'
    if isinstance(s, ast.Continue):
        return f'SNext {state()}'
    if isinstance(s, ast.Raise):
        if isinstance(s.exc, ast.Call) and getattr(s.exc.func, 'id', None) == 'Warning':
            return 'SRaise'
        raise Unsupported(f'raise (line {s.lineno})')
    raise Unsupported(f'statement {type(s).__name__} (line {s.lineno})')


def generate(repo):
    tree = ast.parse(open(f'{repo}/pyworkers/remote_pickle.py').read())
    cls = find_class(tree, 'SupportRemoteGetStateMeta')
    fn = None
    for n in cls.body:
        if isinstance(n, ast.FunctionDef) and n.name.endswith('check_type_cached'):
            fn = n
    if fn is None:
        raise Unsupported('__check_type_cached not found')
    stmts = list(fn.body)
    # cache lookup
    if not (isinstance(stmts[0], ast.If) and 'cls_check_cache' in ast.unparse(stmts[0].test)):
        raise Unsupported('expected the cache lookup first')
    stmts = stmts[1:]
    init = {}
    while stmts and isinstance(stmts[0], ast.Assign):
        s = stmts.pop(0)
        n = s.targets[0].id
        if n in TRACKED:
            init[n] = 'true' if s.value.value else 'false'
        elif n not in IGNORED:
            raise Unsupported(f'initialisation of {n}')
    if set(init) != set(TRACKED):
        raise Unsupported('initial values of allow_remote / has_remote')
    loop = stmts.pop(0)
    if not (isinstance(loop, ast.For) and ast.unparse(loop.iter) == 't.__mro__[:-1]' and ast.unparse(loop.target) == 'base' and not loop.orelse):
        raise Unsupported('expected `for base in t.__mro__[:-1]`')
    step = body(loop.body)
    # after the loop: if has_remote: register ; cache ; return has_remote
    tail = stmts
    ok = (len(tail) == 3 and isinstance(tail[0], ast.If) and ast.unparse(tail[0].test) == 'has_remote'
          and any('supported_classes.append(t)' in ast.unparse(b) for b in tail[0].body) and not tail[0].orelse
          and 'cls_check_cache[t] = has_remote' in ast.unparse(tail[1])
          and isinstance(tail[2], ast.Return) and ast.unparse(tail[2].value) == 'has_remote')
    if not ok:
        raise Unsupported('tail of __check_type_cached (register if has_remote; cache; return has_remote)')
    out = ['(* GENERATED by tools/py2coq/gen_mro.py from pyworkers/remote_pickle.py - do not edit *)',
           'From PW Require Import Pickle.Desc.', '',
           f'Definition py_scan_init : sstate := ({init["allow_remote"]}, {init["has_remote"]}).', '',
           'Definition py_scan_step (b : desc) (st : sstate) : sres :=',
           f"  let '({', '.join(TRACKED)}) := st in", f'  {step}.', '',
           '(* after the loop the class is registered and the function returns iff has_remote *)',
           "Definition py_scan_result (st : sstate) : bool := let '(allow_remote, has_remote) := st in has_remote.", '']
    return '\n'.join(out)


if __name__ == '__main__':
    import sys
    print(generate(sys.argv[1] if len(sys.argv) > 1 else '/repo'))
