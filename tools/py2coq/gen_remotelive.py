"""The parent side of a remote worker's liveness protocol -> theories/Gen/RemoteLive.v (C01, C04):
the `else` branch (not remote side) of RemoteWorker.is_alive / wait / terminate as lists of decision steps, in source order.
  RKnown      if not self._started or self._dead: return <answer for a dead worker>
  RFront      if self._child.is_alive(): return True                      (the frontend thread is still receiving the outcome)
  RAsk        if not self._remote_dead: <send the request, read the bool answer; a closed connection counts as dead>
              is_alive: answer False -> release/close, _remote_dead = _dead = True, fall through; True -> return True; else: _dead = True
              wait/terminate: answer False -> return False; True -> release/close, _remote_dead = True
  RJoin       self._child.join(timeout) [terminate: SIGTERM to itself if still alive and force]; alive = ...; if not alive: _dead = True; return not alive
  RRetFalse   return False
Any other statement fails closed."""
import ast
from shallow import Unsupported, LOG_LEVELS
from gen_registry import find_class, find_method


def is_log(s):
    return (isinstance(s, ast.Expr) and isinstance(s.value, ast.Call) and isinstance(s.value.func, ast.Attribute)
            and isinstance(s.value.func.value, ast.Name) and s.value.func.value.id == 'logger' and s.value.func.attr in LOG_LEVELS)


def strip(stmts):
    return [s for s in stmts if not is_log(s) and not (isinstance(s, ast.Expr) and isinstance(s.value, ast.Constant)) and not isinstance(s, ast.Assert)]


def parent_branch(fn):
    for s in fn.body:
        if isinstance(s, ast.If) and ast.unparse(s.test) == 'self.is_remote_side' and s.orelse:
            return strip(s.orelse)
    raise Unsupported(f'{fn.name}: no `if self.is_remote_side: ... else: ...`')


def ask_shape(s, request, method):
    """checks the body of `if not self._remote_dead:`"""
    body = strip(s.body)
    if not body or not isinstance(body[0], ast.Try):
        raise Unsupported(f'{method}: the request is not sent inside a try')
    t = body[0]
    tb = strip(t.body)
    sends = [x for x in tb if isinstance(x, ast.Expr) and isinstance(x.value, ast.Call) and getattr(x.value.func, 'id', None) == 'send_msg'
             and ast.unparse(x.value.args[0]) == 'self._ctrl_sock' and ast.unparse(x.value.args[1]).startswith(f"('{request}',")]
    recvs = [x for x in tb if isinstance(x, ast.Assign) and ast.unparse(x.targets[0]) == 'result' and ast.unparse(x.value).startswith('recv_msg(self._ctrl_sock')]
    if len(tb) != 2 or len(sends) != 1 or len(recvs) != 1 or t.finalbody or t.orelse or len(t.handlers) != 1 or ast.unparse(t.handlers[0].type) != 'ConnectionClosedError':
        raise Unsupported(f'{method}: request/answer exchange has an unknown shape')
    hb = sorted(ast.unparse(x) for x in strip(t.handlers[0].body))
    dead_answer = 'False' if method == 'is_alive' else 'True'
    if hb != sorted(['self._remote_dead = True', f'result = {dead_answer}']):
        raise Unsupported(f'{method}: a closed control connection is not treated as "the child is dead"')
    rest = body[1:]
    release = "if not self._remote_dead:\n    send_msg(self._ctrl_sock, None"
    if method == 'is_alive':
        if len(rest) != 1 or not isinstance(rest[0], ast.If) or ast.unparse(rest[0].test) != 'not result':
            raise Unsupported('is_alive: what follows the answer has an unknown shape')
        yes = strip(rest[0].body)
        srcs = [ast.unparse(x) for x in yes]
        if not (len(srcs) == 4 and srcs[0].startswith(release) and srcs[1] == 'self._ctrl_sock.close()' and sorted(srcs[2:]) == ['self._dead = True', 'self._remote_dead = True']):
            raise Unsupported('is_alive: the branch for a dead child has an unknown shape')
        if [ast.unparse(x) for x in strip(rest[0].orelse)] != ['return True']:
            raise Unsupported('is_alive: the branch for a live child must return True')
        if [ast.unparse(x) for x in strip(s.orelse)] != ['self._dead = True']:
            raise Unsupported('is_alive: the branch for a child known to be dead must only cache the verdict')
    else:
        srcs = [ast.unparse(x) for x in rest]
        if not (len(srcs) == 4 and srcs[0] == 'if not result:\n    return False' and srcs[1].startswith(release) and srcs[2] == 'self._ctrl_sock.close()' and srcs[3] == 'self._remote_dead = True'):
            raise Unsupported(f'{method}: what follows the answer has an unknown shape')
        if s.orelse:
            raise Unsupported(f'{method}: unexpected else branch of the request')


def steps(fn, request):
    out = []
    body = parent_branch(fn)
    i = 0
    while i < len(body):
        s = body[i]
        src = ast.unparse(s)
        if isinstance(s, ast.If) and ast.unparse(s.test) == 'not self._started or self._dead' and not s.orelse \
                and [ast.unparse(x) for x in strip(s.body)] == ['return ' + ('False' if fn.name == 'is_alive' else 'True')]:
            out.append('RKnown')
        elif isinstance(s, ast.If) and ast.unparse(s.test) == 'self._child.is_alive()' and not s.orelse and [ast.unparse(x) for x in strip(s.body)] == ['return True'] and fn.name == 'is_alive':
            out.append('RFront')
        elif isinstance(s, ast.If) and ast.unparse(s.test) == 'not self._remote_dead':
            ask_shape(s, request, fn.name)
            out.append('RAsk')
        elif src == 'self._child.join(timeout)' and fn.name != 'is_alive':
            j = i + 1
            if fn.name == 'terminate' and j < len(body) and ast.unparse(body[j]) == 'if self._child.is_alive() and force:\n    os.kill(os.getpid(), signal.SIGTERM)':
                j += 1
            tail = [ast.unparse(x) for x in body[j:j + 3]]
            if tail != ['alive = self._child.is_alive()', 'if not alive:\n    self._dead = True', 'return not alive'] or j + 3 != len(body):
                raise Unsupported(f'{fn.name}: the join of the frontend thread has an unknown shape')
            out.append('RJoin')
            i = len(body)
            continue
        elif src == 'return False' and fn.name == 'is_alive' and i == len(body) - 1:
            out.append('RRetFalse')
        else:
            raise Unsupported(f'{fn.name} (parent side), line {s.lineno}: `{src[:70]}`')
        i += 1
    return out


def generate(repo):
    tree = ast.parse(open(f'{repo}/pyworkers/remote.py', newline=None).read())
    cls = find_class(tree, 'RemoteWorker')
    lst = lambda xs: '[' + '; '.join(xs) + ']'   # noqa: E731
    return '\n'.join(['(* GENERATED by tools/py2coq/gen_remotelive.py from RemoteWorker.is_alive / wait / terminate (parent side) - do not edit *)',
                      'From Coq Require Import List.', 'Import ListNotations.', 'From PW Require Import Ctrl.RemoteLive.', '',
                      f'Definition gen_remote_is_alive : list rstep := {lst(steps(find_method(cls, "is_alive"), "alive"))}.',
                      f'Definition gen_remote_wait : list rstep := {lst(steps(find_method(cls, "wait"), "wait"))}.',
                      f'Definition gen_remote_terminate : list rstep := {lst(steps(find_method(cls, "terminate"), "terminate"))}.', ''])


if __name__ == '__main__':
    import sys
    print(generate(sys.argv[1] if len(sys.argv) > 1 else '/repo'))
