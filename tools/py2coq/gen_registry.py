"""Regenerates theories/Gen/Registry.v from pyworkers/worker.py:
Worker.active_children, Worker.register_child and the registration condition in
Worker.__init__.  Class attributes of Worker holding lists of workers become
entries of a store `string -> list wid`; fail-closed on anything else."""
import ast
from shallow import Unsupported


def find_class(tree, name):
    for n in tree.body:
        if isinstance(n, ast.ClassDef) and n.name == name:
            return n
    raise Unsupported(f'class {name} not found')


def find_method(cls, name):
    for n in cls.body:
        if isinstance(n, ast.FunctionDef) and n.name == name:
            return n
    raise Unsupported(f'method {name} not found')


def is_worker_attr(e):
    return isinstance(e, ast.Attribute) and isinstance(e.value, ast.Name) and e.value.id == 'Worker'


class Reg:
    def __init__(self):
        self.locals = {}

    def list_expr(self, e):
        """expression denoting a list of workers -> Gallina term over store `st`"""
        if is_worker_attr(e):
            return f'(get st "{e.attr}")'
        if isinstance(e, ast.Name) and e.id in self.locals:
            return self.locals[e.id]
        if isinstance(e, ast.Call) and isinstance(e.func, ast.Attribute) and isinstance(e.func.value, ast.Name) \
                and e.func.value.id == 'copy' and e.func.attr == 'copy' and len(e.args) == 1:
            return self.list_expr(e.args[0])
        if isinstance(e, ast.Call) and isinstance(e.func, ast.Name) and e.func.id == 'list' and len(e.args) == 1:
            return self.list_expr(e.args[0])
        if isinstance(e, ast.ListComp):
            if len(e.generators) != 1:
                raise Unsupported('nested comprehension')
            g = e.generators[0]
            if not isinstance(g.target, ast.Name) or not isinstance(e.elt, ast.Name) or e.elt.id != g.target.id:
                raise Unsupported('comprehension that maps its elements')
            src = self.list_expr(g.iter)
            term = src
            for cond in g.ifs:
                term = f'(filter {self.pred(cond, g.target.id)} {term})'
            return term
        raise Unsupported(f'list expression {ast.dump(e)[:80]} (line {e.lineno})')

    def pred(self, c, var):
        if isinstance(c, ast.Call) and isinstance(c.func, ast.Attribute) and isinstance(c.func.value, ast.Name) \
                and c.func.value.id == var and c.func.attr == 'is_alive' and not c.args:
            return 'alive'
        if isinstance(c, ast.UnaryOp) and isinstance(c.op, ast.Not):
            return f'(fun x => negb ({self.pred(c.operand, var)} x))'
        raise Unsupported(f'comprehension condition (line {c.lineno})')

    def block(self, stmts, outvar):
        """returns list of Gallina let-lines updating `st` and possibly `out`."""
        lines = []
        for s in stmts:
            if isinstance(s, ast.Expr) and isinstance(s.value, ast.Constant):
                continue
            if isinstance(s, ast.With):
                ok = all(is_worker_attr(i.context_expr) and 'lock' in i.context_expr.attr for i in s.items)
                if not ok:
                    raise Unsupported(f'with statement (line {s.lineno})')
                lines += self.block(s.body, outvar)
            elif isinstance(s, ast.Assign) and len(s.targets) == 1:
                t = s.targets[0]
                if is_worker_attr(t):
                    lines.append(f'let st := set st "{t.attr}" {self.list_expr(s.value)} in')
                elif isinstance(t, ast.Name):
                    v = f'{t.id}_'
                    lines.append(f'let {v} := {self.list_expr(s.value)} in')
                    self.locals[t.id] = v
                else:
                    raise Unsupported(f'assignment target (line {s.lineno})')
            elif isinstance(s, ast.For):
                # for child in X: yield child
                if (len(s.body) == 1 and isinstance(s.body[0], ast.Expr) and isinstance(s.body[0].value, ast.Yield)
                        and isinstance(s.body[0].value.value, ast.Name) and isinstance(s.target, ast.Name)
                        and s.body[0].value.value.id == s.target.id and not s.orelse):
                    lines.append(f'let {outvar} := ({outvar} ++ {self.list_expr(s.iter)})%list in')
                else:
                    raise Unsupported(f'for loop (line {s.lineno})')
            elif isinstance(s, ast.Expr) and isinstance(s.value, ast.Call):
                c = s.value
                # Worker.X.append(child)
                if (isinstance(c.func, ast.Attribute) and c.func.attr == 'append' and is_worker_attr(c.func.value)
                        and len(c.args) == 1 and isinstance(c.args[0], ast.Name)):
                    a = c.func.value.attr
                    lines.append(f'let st := set st "{a}" (get st "{a}" ++ [{c.args[0].id}])%list in')
                else:
                    raise Unsupported(f'call statement (line {s.lineno})')
            elif isinstance(s, ast.If):
                # if child not in Worker.X: <block>      (idempotent registration)
                t = s.test
                if (isinstance(t, ast.Compare) and len(t.ops) == 1 and isinstance(t.ops[0], (ast.NotIn, ast.In))
                        and isinstance(t.left, ast.Name) and is_worker_attr(t.comparators[0]) and not s.orelse):
                    inner = self.block(s.body, outvar)
                    if any(not l.startswith('let st := ') for l in inner):
                        raise Unsupported(f'if body (line {s.lineno})')
                    body = 'st'
                    for l in reversed(inner):
                        body = f'({l} {body})'
                    mem = f'mem {t.left.id} (get st "{t.comparators[0].attr}")'
                    if isinstance(t.ops[0], ast.NotIn):
                        lines.append(f'let st := if {mem} then st else {body} in')
                    else:
                        lines.append(f'let st := if {mem} then {body} else st in')
                else:
                    raise Unsupported(f'if statement (line {s.lineno})')
            else:
                raise Unsupported(f'statement {type(s).__name__} (line {s.lineno})')
        return lines


def bool_expr(e):
    if isinstance(e, ast.BoolOp):
        op = ' && ' if isinstance(e.op, ast.And) else ' || '
        return '(' + op.join(bool_expr(v) for v in e.values) + ')'
    if isinstance(e, ast.UnaryOp) and isinstance(e.op, ast.Not):
        return f'(negb {bool_expr(e.operand)})'
    if isinstance(e, ast.Attribute) and isinstance(e.value, ast.Name) and e.value.id == 'self' and e.attr == '_dead':
        return 'dead'
    if isinstance(e, ast.Name) and e.id == '_is_restart':
        return 'is_restart'
    raise Unsupported(f'registration condition {ast.dump(e)[:80]}')


def registration_condition(init):
    """the test guarding Worker.register_child(self) inside `if run:` of Worker.__init__"""
    for n in ast.walk(init):
        if isinstance(n, ast.If):
            for b in n.body:
                if (isinstance(b, ast.Expr) and isinstance(b.value, ast.Call) and isinstance(b.value.func, ast.Attribute)
                        and b.value.func.attr == 'register_child'):
                    if len(n.body) != 1 or n.orelse:
                        raise Unsupported('registration guard has extra statements')
                    return bool_expr(n.test)
    raise Unsupported('no guarded call of Worker.register_child in Worker.__init__')


def generate(repo):
    tree = ast.parse(open(f'{repo}/pyworkers/worker.py').read())
    cls = find_class(tree, 'Worker')
    ac = find_method(cls, 'active_children')
    rc = find_method(cls, 'register_child')
    init = find_method(cls, '__init__')
    r = Reg()
    ac_lines = r.block(ac.body, 'out')
    r2 = Reg()
    if [a.arg for a in rc.args.args] != ['child']:
        raise Unsupported('signature of register_child')
    rc_lines = r2.block(rc.body, 'out')
    cond = registration_condition(init)
    out = ['(* GENERATED by tools/py2coq/gen_registry.py from pyworkers/worker.py - do not edit *)',
           'From PW Require Import Registry.Store.', 'Open Scope string_scope.', '',
           'Definition py_active_children (alive : wid -> bool) (st : store) : store * list wid :=',
           '  let out := @nil wid in'] + ['  ' + l for l in ac_lines] + ['  (st, out).', '',
           'Definition py_register_child (child : wid) (st : store) : store :=',
           '  let out := @nil wid in'] + ['  ' + l for l in rc_lines] + ['  st.', '',
           '(* the guard of Worker.register_child(self) in Worker.__init__ (inside `if run:`) *)',
           f'Definition py_registers (dead is_restart : bool) : bool := {cond}.', '']
    return '\n'.join(out)


if __name__ == '__main__':
    import sys
    print(generate(sys.argv[1] if len(sys.argv) > 1 else '/repo'))
