"""T-A: regenerates theories/Gen/Restart.v - how Worker.__init__ stores its constructor options and which of them
Worker._get_restart_args / RemoteWorker._get_restart_args hand to the next incarnation (C17: restart() yields an
EQUIVALENT worker).  Each stored field becomes an expression over the constructor parameters, the restart arguments a
table parameter -> field.  Anything else fails closed."""
import ast
from shallow import Unsupported
from gen_registry import find_class, find_method

FIELDS = {'_target': 'FTarget', '_args': 'FArgs', '_kwargs': 'FKwargs', '_name': 'FName', '_userid': 'FUserid',
          '_do_run': 'FRun', '_set_names': 'FSetNames', '_user_state': 'FState',
          '_target_host': 'FHost', '_context': 'FContext', '_main_path': 'FMainPath'}
PARAMS = {'target': 'PTarget', 'args': 'PArgs', 'kwargs': 'PKwargs', 'name': 'PName', 'userid': 'PUserid', 'run': 'PRun',
          'set_names': 'PSetNames', 'init_state': 'PState', 'host': 'PHost', 'context': 'PContext', 'main_path': 'PMainPath'}


def expr(e, run_normalised):
    src = ast.unparse(e)
    if isinstance(e, ast.Name) and e.id in PARAMS:
        if e.id == 'run':
            if not run_normalised:
                raise Unsupported('`run` stored without the `if run is None: run = bool(target)` normalisation')
            return 'ERunNorm'
        return f'EParam {PARAMS[e.id]}'
    if isinstance(e, ast.BoolOp) and isinstance(e.op, ast.Or) and len(e.values) == 2 and isinstance(e.values[0], ast.Name) and e.values[0].id in PARAMS:
        d = ast.unparse(e.values[1])
        if d in ('[]', '{}'):
            return f'EOrEmpty {PARAMS[e.values[0].id]}'
    raise Unsupported(f'stored option `{src}` (line {e.lineno})')


def generate(repo):
    tree = ast.parse(open(f'{repo}/pyworkers/worker.py', newline=None).read())
    w = find_class(tree, 'Worker')
    init = find_method(w, '__init__')
    run_norm = any(isinstance(s, ast.If) and ast.unparse(s.test) == 'run is None' and len(s.body) == 1
                   and ast.unparse(s.body[0]) == 'run = bool(target)' and not s.orelse for s in init.body)
    stores = {}
    for s in init.body:
        if isinstance(s, ast.Assign) and len(s.targets) == 1 and isinstance(s.targets[0], ast.Attribute) \
                and isinstance(s.targets[0].value, ast.Name) and s.targets[0].value.id == 'self' and s.targets[0].attr in FIELDS:
            f = s.targets[0].attr
            if f in stores:
                raise Unsupported(f'{f} assigned twice in Worker.__init__')
            stores[f] = expr(s.value, run_norm)
    for s in ast.walk(init):
        # a stored option must not be re-assigned conditionally somewhere deeper
        if isinstance(s, ast.Assign) and s not in init.body and isinstance(s.targets[0], ast.Attribute) and getattr(s.targets[0].value, 'id', None) == 'self' \
                and s.targets[0].attr in FIELDS and s.targets[0].attr not in ('_user_state',):
            raise Unsupported(f'nested assignment to {s.targets[0].attr} in Worker.__init__ (line {s.lineno})')
    params = [a.arg for a in init.args.args[1:]] + [a.arg for a in init.args.kwonlyargs]

    def table(fn, what):
        if len(fn.body) != 1 and not (len(fn.body) == 3):
            raise Unsupported(f'{what}: unexpected shape')
        return fn

    ra = find_method(w, '_get_restart_args')
    if not (len(ra.body) == 1 and isinstance(ra.body[0], ast.Return) and isinstance(ra.body[0].value, ast.Tuple) and len(ra.body[0].value.elts) == 2):
        raise Unsupported('Worker._get_restart_args: expected `return [positional], {keyword: self._field, ...}`')
    pos, kw = ra.body[0].value.elts
    if not (isinstance(pos, ast.List) and len(pos.elts) == 1 and ast.unparse(pos.elts[0]) == 'self._target'):
        raise Unsupported('Worker._get_restart_args: the positional part must be [self._target]')
    if not isinstance(kw, ast.Dict):
        raise Unsupported('Worker._get_restart_args: the keyword part must be a dict literal')
    fwd = [('target', '_target')]
    for k, v in zip(kw.keys, kw.values):
        if not (isinstance(k, ast.Constant) and isinstance(v, ast.Attribute) and getattr(v.value, 'id', None) == 'self'):
            raise Unsupported(f'Worker._get_restart_args: entry `{ast.unparse(k)}: {ast.unparse(v)}`')
        fwd.append((k.value, v.attr))
    # the remote kind adds its own options
    rtree = ast.parse(open(f'{repo}/pyworkers/remote.py', newline=None).read())
    rw = find_class(rtree, 'RemoteWorker')
    rra = find_method(rw, '_get_restart_args')
    ok = (len(rra.body) == 3 and ast.unparse(rra.body[0]) == 'args, kwargs = super()._get_restart_args()'
          and isinstance(rra.body[1], ast.Expr) and ast.unparse(rra.body[1].value.func) == 'kwargs.update' and isinstance(rra.body[1].value.args[0], ast.Dict)
          and ast.unparse(rra.body[2]) == 'return (args, kwargs)')
    if not ok:
        raise Unsupported('RemoteWorker._get_restart_args: expected super() + kwargs.update({...}) + return')
    rfwd = []
    for k, v in zip(rra.body[1].value.args[0].keys, rra.body[1].value.args[0].values):
        if not (isinstance(k, ast.Constant) and isinstance(v, ast.Attribute) and getattr(v.value, 'id', None) == 'self'):
            raise Unsupported(f'RemoteWorker._get_restart_args: entry `{ast.unparse(k)}`')
        rfwd.append((k.value, v.attr))
    # how RemoteWorker.__init__ stores its own options
    rinit = find_method(rw, '__init__')
    rstores = {}
    for s in rinit.body:
        if isinstance(s, ast.Assign) and isinstance(s.targets[0], ast.Attribute) and getattr(s.targets[0].value, 'id', None) == 'self' and s.targets[0].attr in ('_target_host', '_context', '_main_path'):
            src = ast.unparse(s.value)
            rstores[s.targets[0].attr] = {'sanitize_target_host(host)': 'ENorm PHost', 'context': 'EParam PContext', 'main_path': 'ENorm PMainPath'}.get(src)
            if rstores[s.targets[0].attr] is None:
                raise Unsupported(f'RemoteWorker.__init__: stored option `{src}`')
    for pn, fn in fwd + rfwd:
        if pn not in PARAMS or fn not in FIELDS:
            raise Unsupported(f'restart argument {pn} <- {fn}')

    def lst(xs):
        return '[' + '; '.join(xs) + ']'
    out = ['(* GENERATED by tools/py2coq/gen_restart.py from Worker.__init__/_get_restart_args and RemoteWorker.__init__/_get_restart_args - do not edit *)',
           'From PW Require Import PoolLife.Restart.', '',
           f'Definition gen_ctor_params : list param := {lst(PARAMS[p] for p in params if p in PARAMS)}.',
           f'Definition gen_stores : list (field * sexpr) := {lst(f"({FIELDS[f]}, {e})" for f, e in stores.items())}.',
           f'Definition gen_forward : list (param * field) := {lst(f"({PARAMS[p]}, {FIELDS[f]})" for p, f in fwd)}.',
           f'Definition gen_remote_stores : list (field * sexpr) := {lst(f"({FIELDS[f]}, {e})" for f, e in rstores.items())}.',
           f'Definition gen_remote_forward : list (param * field) := {lst(f"({PARAMS[p]}, {FIELDS[f]})" for p, f in rfwd)}.', '']
    return '\n'.join(out)


if __name__ == '__main__':
    import sys
    print(generate(sys.argv[1] if len(sys.argv) > 1 else '/repo'))
