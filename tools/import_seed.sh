#!/bin/bash
# usage: tools/import_seed.sh <Cxx> <round dir e.g. /tmp/seedout3> <worktree to remove> [pytest args...]
# copies a sub-agent's seed into seeded/Cxx/mN (next free N), confirms it, runs the property's quick check against a scratch
# copy of /repo with the patch applied, prints the verdict line, removes the agent's worktree.
p=$1; src=$2/$p; wt=$3; shift 3
n=1; while [ -d seeded/$p/m$n ]; do n=$((n+1)); done
d=seeded/$p/m$n; mkdir -p $d; cp $src/demo.py $src/patch.diff $src/meta.json $d/
[ -n "$wt" ] && git -C /repo worktree remove --force $wt 2>/dev/null
tools/confirm_seed.sh $d "$@" | tail -1 | cut -c1-200
s=/var/tmp/wt_seed_$p; git -C /repo worktree add -q $s HEAD && git -C $s apply $PWD/$d/patch.diff && PYWORKERS_REPO=$s timeout 3000 bin/check $p quick 2>&1 | grep -E "^VIOLATION|^\[$p\]" | cut -c1-300
f=$(ls -t replays/$p-*.json 2>/dev/null | head -1); [ -n "$f" ] && python3 - "$f" <<'PY' 2>/dev/null
import json,sys
d=json.load(open(sys.argv[1]))
if d.get('first'): print('   first:', json.dumps(d['first'], default=repr)[:500])
for b in (d.get('broken') or [])[:3]: print('   broken:', json.dumps(b.get('what') if isinstance(b,dict) else b)[:200])
PY
git -C /repo worktree remove --force $s
echo "imported as $d"
