#!/bin/bash
# usage: tools/all_checks.sh quick|thorough   -- every claimed check, one after the other, summary at the end
tier=${1:-quick}
bin/setup > setup.log 2>&1
for p in $(python3 -c "import json; print(' '.join(c['property_id'] for c in json.load(open('MANIFEST.json'))['checks']))"); do
  s=$(date +%s)
  timeout 7200 bin/check $p $tier > out_$p.log 2>&1; rc=$?
  echo "$p $tier exit=$rc wall=$(( $(date +%s) - s ))s $(grep -E '^VIOLATION|^KNOWN-FINDING' out_$p.log | cut -c1-160 | tr '\n' '|')"
done
echo ALLCHECKS DONE
